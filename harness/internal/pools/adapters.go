package pools

import (
	"context"
	"encoding/json"
	"errors"
	"fmt"
	"net"
	"net/http"
	"net/http/httptest"
	"net/netip"
	"sort"
	"strings"
	"sync"
	"testing/synctest"
	"time"

	"github.com/codelaboratoryltd/bng/pkg/allocator"
	"github.com/codelaboratoryltd/bng/pkg/dhcp"
	"github.com/codelaboratoryltd/bng/pkg/dhcpv6"
	"github.com/codelaboratoryltd/bng/pkg/nexus"
	"github.com/codelaboratoryltd/bng/pkg/pool"
	"github.com/codelaboratoryltd/bng/pkg/pppoe"
	"go.uber.org/zap"
)

var bg = context.Background()

func exh(err error) error {
	if err == nil {
		return nil
	}
	if errors.Is(err, allocator.ErrPoolExhausted) || strings.Contains(err.Error(), "exhausted") {
		return fmt.Errorf("%w: %v", ErrExhausted, err)
	}
	return err
}

// ---------------------------------------------------------------- bitmap

type bitmapPool struct{ a *allocator.IPAllocator }

func (p *bitmapPool) Alloc(sub string) (netip.Prefix, error) {
	n, err := p.a.Allocate(sub)
	if err != nil {
		return netip.Prefix{}, exh(err)
	}
	return FromIPNet(n), nil
}
func (p *bitmapPool) Release(sub string) error { return p.a.Release(sub) }
func (p *bitmapPool) Lookup(sub string) (netip.Prefix, bool, bool) {
	n := p.a.Lookup(sub)
	return FromIPNet(n), n != nil, true
}
func (p *bitmapPool) Reverse(v netip.Prefix) (string, bool, bool) {
	s := p.a.LookupByPrefix(ToIPNet(v))
	return s, s != "", true
}
func (p *bitmapPool) List() (map[string]netip.Prefix, bool) {
	out := map[string]netip.Prefix{}
	for _, a := range p.a.ListAllocations() {
		out[a.SubscriberID] = FromIPNet(a.Prefix)
	}
	return out, true
}
func (p *bitmapPool) Stats() (int, int, bool) {
	a, t, _ := p.a.Stats()
	return int(a), int(t), true
}
func (p *bitmapPool) AllocSpecific(sub string, v netip.Prefix) error {
	return p.a.AllocateSpecific(sub, ToIPNet(v))
}
func (p *bitmapPool) ReleaseValue(v netip.Prefix) error { return p.a.ReleasePrefix(ToIPNet(v)) }
func (p *bitmapPool) Move(sub string, v netip.Prefix) error {
	return p.a.SetAllocation(sub, ToIPNet(v))
}
func (p *bitmapPool) Reapply(sub string) error {
	n := p.a.Lookup(sub)
	if n == nil {
		return nil
	}
	return p.a.SetAllocation(sub, n)
}
func (p *bitmapPool) Reload() (Pool, error) {
	b, err := json.Marshal(p.a)
	if err != nil {
		return nil, err
	}
	na := &allocator.IPAllocator{}
	if err := json.Unmarshal(b, na); err != nil {
		return nil, err
	}
	return &bitmapPool{a: na}, nil
}

// Bitmap returns a spec for IPAllocator.
func Bitmap(cidr string, unit int) *Spec {
	r := netip.MustParsePrefix(cidr)
	n := unit - r.Bits()
	usable := -1
	if n >= 0 && n <= 20 {
		usable = 1 << n
	}
	return &Spec{Impl: "allocator.IPAllocator", Geom: fmt.Sprintf("%s→/%d", cidr, unit), Range: r.Masked(), UnitBits: unit, Usable: usable, Concurrent: true, StatsKind: "percent",
		New: func() (Pool, error) {
			a, err := allocator.NewIPAllocator(cidr, unit)
			if err != nil {
				return nil, err
			}
			return &bitmapPool{a: a}, nil
		}}
}

// ---------------------------------------------------------------- epoch

type epochPool struct {
	a    *allocator.EpochBitmapAllocator
	unit int
}

func (p *epochPool) pfx(ip net.IP) netip.Prefix {
	if ip == nil {
		return netip.Prefix{}
	}
	h := FromIP(ip)
	return netip.PrefixFrom(h.Addr(), p.unit)
}
func (p *epochPool) Alloc(sub string) (netip.Prefix, error) {
	ip, err := p.a.Allocate(bg, sub)
	if err != nil {
		return netip.Prefix{}, exh(err)
	}
	return p.pfx(ip), nil
}
func (p *epochPool) Release(sub string) error { return p.a.Release(bg, sub) }
func (p *epochPool) Renew(sub string) error   { return p.a.Renew(bg, sub) }
func (p *epochPool) AdvanceEpoch()            { p.a.AdvanceEpoch() }

// Move places sub on v the way a replayed store record / remote change does.
func (p *epochPool) Move(sub string, v netip.Prefix) error {
	return p.a.SetAllocation(sub, net.IP(v.Addr().AsSlice()))
}
func (p *epochPool) Lookup(sub string) (netip.Prefix, bool, bool) {
	ip := p.a.Lookup(sub)
	return p.pfx(ip), ip != nil, true
}
func (p *epochPool) Reverse(v netip.Prefix) (string, bool, bool) {
	s := p.a.LookupByIP(net.IP(v.Addr().AsSlice()))
	return s, s != "", true
}
func (p *epochPool) List() (map[string]netip.Prefix, bool) { return nil, false }
func (p *epochPool) Stats() (int, int, bool) {
	a, t, _ := p.a.Stats()
	return int(a), int(t), true
}
func (p *epochPool) Reload() (Pool, error) {
	b, err := json.Marshal(p.a)
	if err != nil {
		return nil, err
	}
	na := &allocator.EpochBitmapAllocator{}
	if err := json.Unmarshal(b, na); err != nil {
		return nil, err
	}
	return &epochPool{a: na, unit: p.unit}, nil
}

// Epoch returns a spec for EpochBitmapAllocator.
func Epoch(cidr string, unit int, grace int) *Spec {
	r := netip.MustParsePrefix(cidr)
	n := unit - r.Bits()
	usable := -1
	if n >= 0 && n <= 20 {
		usable = 1<<n - 2 // documented: network and broadcast index skipped
		if usable < 0 {
			usable = 0
		}
	}
	units := Units(r.Masked(), unit)
	var excl []netip.Addr
	if unit == 32 && len(units) >= 2 {
		excl = []netip.Addr{units[0].Addr(), units[len(units)-1].Addr()}
	}
	return &Spec{Impl: "allocator.EpochBitmapAllocator", Geom: fmt.Sprintf("%s→/%d grace=%d", cidr, unit, grace), Range: r.Masked(), UnitBits: unit, Usable: usable, Excluded: excl, Grace: grace, Concurrent: true, StatsKind: "fraction",
		New: func() (Pool, error) {
			a, err := allocator.NewEpochBitmapAllocator(allocator.EpochBitmapConfig{BaseNetwork: cidr, PrefixLength: unit, GracePeriod: uint64(grace)})
			if err != nil {
				return nil, err
			}
			return &epochPool{a: a, unit: unit}, nil
		}}
}

// ---------------------------------------------------------------- harness Store for DistributedAllocator

// MemStore implements allocator.Store with fault injection, op log and snapshots.
type MemStore struct {
	mu       sync.Mutex
	Data     map[string][]byte
	failAt   int // countdown to failing write; 0 = none
	Writes   int
	Log      []string
	watchers []func(key string, value []byte, deleted bool)
	// QueryPerm, if set, permutes Query results.
	QueryPerm func(n int) []int
	// KeepSnaps records a copy of Data after every successful write (crash points for C12).
	KeepSnaps bool
	Snaps     []map[string][]byte
	// Pending, if non-nil, collects change notifications instead of nobody hearing them (multi-node C12).
	Pending *[]Change
}

// Change is one store change notification.
type Change struct {
	Key     string
	Value   []byte
	Deleted bool
}

func (m *MemStore) snap() {
	if !m.KeepSnaps {
		return
	}
	c := make(map[string][]byte, len(m.Data))
	for k, v := range m.Data {
		c[k] = append([]byte(nil), v...)
	}
	m.Snaps = append(m.Snaps, c)
}

// FromSnapshot builds a store holding a copy of snap.
func FromSnapshot(snap map[string][]byte) *MemStore {
	n := NewMemStore()
	for k, v := range snap {
		n.Data[k] = append([]byte(nil), v...)
	}
	return n
}

func NewMemStore() *MemStore { return &MemStore{Data: map[string][]byte{}} }

func (m *MemStore) Clone() *MemStore {
	m.mu.Lock()
	defer m.mu.Unlock()
	n := NewMemStore()
	for k, v := range m.Data {
		n.Data[k] = append([]byte(nil), v...)
	}
	n.QueryPerm = m.QueryPerm
	return n
}
func (m *MemStore) FailNext(n int)     { m.mu.Lock(); m.failAt = n; m.mu.Unlock() }
func (m *MemStore) FaultPending() bool { m.mu.Lock(); defer m.mu.Unlock(); return m.failAt > 0 }
func (m *MemStore) tick() bool {
	m.Writes++
	if m.failAt > 0 {
		m.failAt--
		if m.failAt == 0 {
			return true
		}
	}
	return false
}
func (m *MemStore) Get(ctx context.Context, key string) ([]byte, error) {
	m.mu.Lock()
	defer m.mu.Unlock()
	v, ok := m.Data[key]
	if !ok {
		return nil, fmt.Errorf("not found")
	}
	return append([]byte(nil), v...), nil
}
func (m *MemStore) Put(ctx context.Context, key string, value []byte) error {
	m.mu.Lock()
	defer m.mu.Unlock()
	if m.tick() {
		m.Log = append(m.Log, "put-FAIL "+key)
		return ErrInjected
	}
	m.Data[key] = append([]byte(nil), value...)
	m.Log = append(m.Log, "put "+key)
	m.snap()
	if m.Pending != nil {
		*m.Pending = append(*m.Pending, Change{Key: key, Value: append([]byte(nil), value...)})
	}
	return nil
}
func (m *MemStore) Delete(ctx context.Context, key string) error {
	m.mu.Lock()
	defer m.mu.Unlock()
	if m.tick() {
		m.Log = append(m.Log, "del-FAIL "+key)
		return ErrInjected
	}
	delete(m.Data, key)
	m.Log = append(m.Log, "del "+key)
	m.snap()
	if m.Pending != nil {
		*m.Pending = append(*m.Pending, Change{Key: key, Deleted: true})
	}
	return nil
}
func (m *MemStore) Query(ctx context.Context, prefix string) ([]allocator.KeyValue, error) {
	m.mu.Lock()
	defer m.mu.Unlock()
	keys := make([]string, 0, len(m.Data))
	for k := range m.Data {
		if strings.HasPrefix(k, prefix) {
			keys = append(keys, k)
		}
	}
	sort.Strings(keys)
	if m.QueryPerm != nil {
		perm := m.QueryPerm(len(keys))
		nk := make([]string, len(keys))
		for i, j := range perm {
			nk[i] = keys[j]
		}
		keys = nk
	}
	out := make([]allocator.KeyValue, 0, len(keys))
	for _, k := range keys {
		out = append(out, allocator.KeyValue{Key: k, Value: append([]byte(nil), m.Data[k]...)})
	}
	return out, nil
}
func (m *MemStore) Watch(prefix string, cb func(key string, value []byte, deleted bool)) {
	m.mu.Lock()
	m.watchers = append(m.watchers, cb)
	m.mu.Unlock()
}

// Announce delivers a remote change to the watchers (synchronously).
func (m *MemStore) Announce(key string, value []byte, deleted bool) {
	m.mu.Lock()
	ws := append([]func(string, []byte, bool){}, m.watchers...)
	m.mu.Unlock()
	for _, w := range ws {
		w(key, value, deleted)
	}
}

type distPool struct {
	cfg   allocator.DistributedConfig
	a     *allocator.DistributedAllocator
	store *MemStore
	mac   bool // drive the DHCP entry point AllocateWithMAC instead of Allocate
}

func (p *distPool) Alloc(sub string) (netip.Prefix, error) {
	var n *net.IPNet
	var err error
	if p.mac {
		n, err = p.a.AllocateWithMAC(bg, sub, macOf(sub))
	} else {
		n, err = p.a.Allocate(bg, sub)
	}
	if err != nil {
		return netip.Prefix{}, exh(err)
	}
	return FromIPNet(n), nil
}
func (p *distPool) Release(sub string) error { return p.a.Release(bg, sub) }
func (p *distPool) Renew(sub string) error   { return p.a.Renew(bg, sub) }
func (p *distPool) Lookup(sub string) (netip.Prefix, bool, bool) {
	n, ok := p.a.Get(sub)
	return FromIPNet(n), ok, true
}
func (p *distPool) Reverse(v netip.Prefix) (string, bool, bool) {
	s, ok := p.a.GetByPrefix(ToIPNet(v))
	return s, ok, true
}
func (p *distPool) List() (map[string]netip.Prefix, bool) { return nil, false }
func (p *distPool) Stats() (int, int, bool) {
	s := p.a.Stats()
	return s.Allocated, s.Total, true
}
func (p *distPool) FailNext(n int)     { p.store.FailNext(n) }
func (p *distPool) FaultPending() bool { return p.store.FaultPending() }
func (p *distPool) StoreHas(sub string) (netip.Prefix, bool) {
	b, err := p.store.Get(bg, fmt.Sprintf("/allocation/%s/%s", p.cfg.PoolID, sub))
	if err != nil {
		return netip.Prefix{}, false
	}
	var rec allocator.DistributedAllocation
	if json.Unmarshal(b, &rec) != nil {
		return netip.Prefix{}, false
	}
	pf, err := netip.ParsePrefix(rec.Prefix)
	if err != nil {
		return netip.Prefix{}, false
	}
	return pf, true
}

// Move delivers a remote announcement "sub now has v" through the store's watch callback.
func (p *distPool) Move(sub string, v netip.Prefix) error {
	rec := allocator.DistributedAllocation{PoolID: p.cfg.PoolID, SubscriberID: sub, Prefix: v.String(), Epoch: p.a.GetCurrentEpoch()}
	b, _ := json.Marshal(rec)
	key := fmt.Sprintf("/allocation/%s/%s", p.cfg.PoolID, sub)
	// the announcing node wrote the record to the shared store before peers hear of it
	p.store.mu.Lock()
	p.store.Data[key] = b
	p.store.mu.Unlock()
	p.store.Announce(key, b, false)
	return nil
}

// Store exposes the backing store (C12).
func (p *distPool) Store() *MemStore { return p.store }

// Raw exposes the allocator (C12).
func (p *distPool) Raw() *allocator.DistributedAllocator { return p.a }

// distLeasePool deliberately does not offer Reload: restart of a lease-mode node from its store
// (stale records of lapsed leases, epoch reset) is judged by C12, which models the store.
type distLeasePool struct {
	cfg   allocator.DistributedConfig
	a     *allocator.DistributedAllocator
	store *MemStore
	in    distPool
}

func (p *distLeasePool) AdvanceEpoch()                                { p.a.AdvanceEpoch() }
func (p *distLeasePool) Alloc(sub string) (netip.Prefix, error)       { return p.in.Alloc(sub) }
func (p *distLeasePool) Release(sub string) error                     { return p.in.Release(sub) }
func (p *distLeasePool) Renew(sub string) error                       { return p.in.Renew(sub) }
func (p *distLeasePool) Lookup(sub string) (netip.Prefix, bool, bool) { return p.in.Lookup(sub) }
func (p *distLeasePool) Reverse(v netip.Prefix) (string, bool, bool)  { return p.in.Reverse(v) }
func (p *distLeasePool) List() (map[string]netip.Prefix, bool)        { return nil, false }
func (p *distLeasePool) Stats() (int, int, bool)                      { return p.in.Stats() }
func (p *distLeasePool) FailNext(n int)                               { p.in.FailNext(n) }
func (p *distLeasePool) StoreHas(sub string) (netip.Prefix, bool)     { return p.in.StoreHas(sub) }
func (p *distLeasePool) Move(sub string, v netip.Prefix) error        { return p.in.Move(sub, v) }

// Reload = restart from the backing store (session mode only participates in C01/C05 histories;
// lease-mode reload is judged in C12 where the epoch of the restarted node is modelled).
func (p *distPool) Reload() (Pool, error) {
	ns := p.store.Clone()
	a, err := allocator.NewDistributedAllocator(p.cfg, ns)
	if err != nil {
		return nil, err
	}
	if err := loadOnly(a); err != nil {
		return nil, err
	}
	return &distPool{cfg: p.cfg, a: a, store: ns, mac: p.mac}, nil
}

// loadOnly runs Start with an already-cancelled context so that no epoch ticker goroutine lingers.
func loadOnly(a *allocator.DistributedAllocator) error {
	ctx, cancel := context.WithCancel(context.Background())
	err := a.Start(ctx)
	cancel()
	return err
}

// Distributed returns a spec for DistributedAllocator in session or lease mode over a harness store.
func Distributed(cidr string, unit int, lease bool, grace int) *Spec {
	return distributed(cidr, unit, lease, grace, false)
}

// DistributedMAC is Distributed driven through AllocateWithMAC (the entry point the DHCP server uses).
func DistributedMAC(cidr string, unit int, lease bool, grace int) *Spec {
	return distributed(cidr, unit, lease, grace, true)
}

func distributed(cidr string, unit int, lease bool, grace int, mac bool) *Spec {
	r := netip.MustParsePrefix(cidr)
	n := unit - r.Bits()
	mode := allocator.PoolModeSession
	usable := 1 << n
	name := "allocator.DistributedAllocator/session"
	var excl []netip.Addr
	if lease {
		mode = allocator.PoolModeLease
		usable = 1<<n - 2
		name = "allocator.DistributedAllocator/lease"
		units := Units(r.Masked(), unit)
		if len(units) >= 2 {
			excl = []netip.Addr{units[0].Addr(), units[len(units)-1].Addr()}
		}
	} else {
		grace = 0
	}
	if mac {
		name += "+mac"
	}
	cfg := allocator.DistributedConfig{PoolID: "p1", BaseNetwork: cidr, PrefixLen: unit, Mode: mode, EpochGrace: grace}
	return &Spec{Impl: name, Geom: fmt.Sprintf("%s→/%d grace=%d", cidr, unit, grace), Range: r.Masked(), UnitBits: unit, Usable: usable, Excluded: excl, Grace: grace, Concurrent: true,
		New: func() (Pool, error) {
			st := NewMemStore()
			a, err := allocator.NewDistributedAllocator(cfg, st)
			if err != nil {
				return nil, err
			}
			if err := loadOnly(a); err != nil {
				return nil, err
			}
			dp := distPool{cfg: cfg, a: a, store: st, mac: mac}
			if lease {
				return &distLeasePool{cfg: cfg, a: a, store: st, in: dp}, nil
			}
			return &dp, nil
		}}
}

// ---------------------------------------------------------------- DistributedAllocator with its own epoch ticker

// distTickerPool is the lease-mode DistributedAllocator as deployed: Start() is given a live context so
// the allocator's own epochLoop (epoch advance + cleanupExpiredFromStore) runs, and the store echoes
// every successful local write to the watchers (nexus.MemoryStore and the CLSet stores do), delivered
// once the operation that caused it has returned. It must be created and used inside a
// testing/synctest bubble: AdvanceEpoch sleeps one virtual epoch period.
type distTickerPool struct {
	distLeasePool
	cancel  context.CancelFunc
	period  time.Duration
	pending []Change
}

func (p *distTickerPool) settle() {
	for {
		p.store.mu.Lock()
		if len(p.pending) == 0 {
			p.store.mu.Unlock()
			return
		}
		c := p.pending[0]
		p.pending = p.pending[1:]
		p.store.mu.Unlock()
		p.store.Announce(c.Key, c.Value, c.Deleted)
	}
}
func (p *distTickerPool) AdvanceEpoch() {
	time.Sleep(p.period)
	synctest.Wait()
	p.settle()
}
func (p *distTickerPool) Alloc(sub string) (netip.Prefix, error) {
	v, err := p.in.Alloc(sub)
	p.settle()
	return v, err
}
func (p *distTickerPool) Release(sub string) error { err := p.in.Release(sub); p.settle(); return err }
func (p *distTickerPool) Renew(sub string) error   { err := p.in.Renew(sub); p.settle(); return err }
func (p *distTickerPool) stop()                    { p.cancel(); synctest.Wait() }

// DistributedTicker returns the lease-mode spec whose epochs are advanced by the allocator's own ticker.
// Bubble is set: histories must run inside synctest.Test.
func DistributedTicker(cidr string, unit int, grace int, mac bool) *Spec {
	s := distributed(cidr, unit, true, grace, mac)
	s.Impl += "+ticker"
	s.Concurrent = false
	s.Bubble = true
	s.Caps = &Caps{Renew: true, Epoch: true, Fault: true}
	period := time.Hour
	cfg := allocator.DistributedConfig{PoolID: "p1", BaseNetwork: cidr, PrefixLen: unit, Mode: allocator.PoolModeLease, EpochGrace: grace, EpochPeriod: period}
	s.New = func() (Pool, error) {
		st := NewMemStore()
		a, err := allocator.NewDistributedAllocator(cfg, st)
		if err != nil {
			return nil, err
		}
		ctx, cancel := context.WithCancel(context.Background())
		if err := a.Start(ctx); err != nil {
			cancel()
			return nil, err
		}
		tp := &distTickerPool{cancel: cancel, period: period}
		tp.distLeasePool = distLeasePool{cfg: cfg, a: a, store: st, in: distPool{cfg: cfg, a: a, store: st, mac: mac}}
		st.Pending = &tp.pending
		return tp, nil
	}
	return s
}

// ---------------------------------------------------------------- PoolAllocator + MemoryAllocationStore

type faultyAllocStore struct {
	*allocator.MemoryAllocationStore
	mu     sync.Mutex
	failAt int
}

func (f *faultyAllocStore) tick() bool {
	f.mu.Lock()
	defer f.mu.Unlock()
	if f.failAt > 0 {
		f.failAt--
		return f.failAt == 0
	}
	return false
}
func (f *faultyAllocStore) SaveAllocation(ctx context.Context, a allocator.AllocationRecord) error {
	if f.tick() {
		return ErrInjected
	}
	return f.MemoryAllocationStore.SaveAllocation(ctx, a)
}
func (f *faultyAllocStore) RemoveAllocation(ctx context.Context, poolID, sub string) error {
	if f.tick() {
		return ErrInjected
	}
	return f.MemoryAllocationStore.RemoveAllocation(ctx, poolID, sub)
}

type poolAllocPool struct {
	a  *allocator.PoolAllocator
	st *faultyAllocStore
}

func (p *poolAllocPool) Alloc(sub string) (netip.Prefix, error) {
	n, err := p.a.Allocate(bg, sub, "")
	if err != nil {
		return netip.Prefix{}, exh(err)
	}
	return FromIPNet(n), nil
}
func (p *poolAllocPool) Release(sub string) error { return p.a.Release(bg, sub) }
func (p *poolAllocPool) Lookup(sub string) (netip.Prefix, bool, bool) {
	n := p.a.Lookup(sub)
	return FromIPNet(n), n != nil, true
}
func (p *poolAllocPool) Reverse(v netip.Prefix) (string, bool, bool) {
	rec, err := p.st.GetByIP(bg, net.IP(v.Addr().AsSlice()))
	if err != nil || rec == nil {
		return "", false, true
	}
	return rec.SubscriberID, true, true
}
func (p *poolAllocPool) List() (map[string]netip.Prefix, bool) {
	recs, err := p.st.GetByPool(bg, p.a.PoolID())
	if err != nil {
		return nil, false
	}
	out := map[string]netip.Prefix{}
	for _, r := range recs {
		out[r.SubscriberID] = FromIPNet(r.Prefix)
	}
	return out, true
}
func (p *poolAllocPool) Stats() (int, int, bool) {
	a, t, _ := p.a.Stats()
	sa, stt, err := p.st.GetPoolUtilization(bg, p.a.PoolID())
	if err == nil && (sa != int(a) || stt != int(t)) {
		// report the store's view if it disagrees with the allocator's: the sweep compares it with the truth
		return sa, stt, true
	}
	return int(a), int(t), true
}
func (p *poolAllocPool) FailNext(n int) { p.st.mu.Lock(); p.st.failAt = n; p.st.mu.Unlock() }
func (p *poolAllocPool) FaultPending() bool {
	p.st.mu.Lock()
	defer p.st.mu.Unlock()
	return p.st.failAt > 0
}
func (p *poolAllocPool) StoreHas(sub string) (netip.Prefix, bool) {
	recs, err := p.st.GetBySubscriber(bg, sub)
	if err != nil || len(recs) == 0 {
		return netip.Prefix{}, false
	}
	return FromIPNet(recs[0].Prefix), true
}

// PoolAlloc returns a spec for PoolAllocator over MemoryAllocationStore.
func PoolAlloc(cidr string, unit int) *Spec {
	r := netip.MustParsePrefix(cidr)
	n := unit - r.Bits()
	return &Spec{Impl: "allocator.PoolAllocator+MemoryAllocationStore", Geom: fmt.Sprintf("%s→/%d", cidr, unit), Range: r.Masked(), UnitBits: unit, Usable: 1 << n, Concurrent: true,
		New: func() (Pool, error) {
			st := &faultyAllocStore{MemoryAllocationStore: allocator.NewMemoryAllocationStore()}
			a, err := allocator.NewPoolAllocator("p1", cidr, unit, st)
			if err != nil {
				return nil, err
			}
			st.SetPoolTotal("p1", 1<<n)
			return &poolAllocPool{a: a, st: st}, nil
		}}
}

// ---------------------------------------------------------------- LocalAllocator

type localPool struct{ a *allocator.LocalAllocator }

func (p *localPool) Alloc(sub string) (netip.Prefix, error) {
	n, err := p.a.Allocate(bg, sub, "p1")
	if err != nil {
		return netip.Prefix{}, exh(err)
	}
	return FromIPNet(n), nil
}
func (p *localPool) Release(sub string) error { return p.a.Release(bg, sub, "p1") }
func (p *localPool) Lookup(sub string) (netip.Prefix, bool, bool) {
	infos, err := p.a.Lookup(bg, sub)
	if err != nil || len(infos) == 0 {
		return netip.Prefix{}, false, true
	}
	return FromIPNet(infos[0].Prefix), true, true
}
func (p *localPool) Reverse(v netip.Prefix) (string, bool, bool) {
	info, err := p.a.LookupByIP(bg, net.IP(v.Addr().AsSlice()))
	if err != nil || info == nil {
		return "", false, true
	}
	return info.SubscriberID, true, true
}
func (p *localPool) List() (map[string]netip.Prefix, bool) {
	infos, err := p.a.LookupByPool(bg, "p1")
	if err != nil {
		return nil, false
	}
	out := map[string]netip.Prefix{}
	for _, r := range infos {
		out[r.SubscriberID] = FromIPNet(r.Prefix)
	}
	return out, true
}
func (p *localPool) Stats() (int, int, bool) {
	a, t, _, err := p.a.Stats(bg, "p1")
	if err != nil {
		return 0, 0, false
	}
	return int(a), int(t), true
}

// Local returns a spec for LocalAllocator with one pool.
func Local(cidr string, unit int) *Spec {
	r := netip.MustParsePrefix(cidr)
	n := unit - r.Bits()
	return &Spec{Impl: "allocator.LocalAllocator", Geom: fmt.Sprintf("%s→/%d", cidr, unit), Range: r.Masked(), UnitBits: unit, Usable: 1 << n, Concurrent: true,
		New: func() (Pool, error) {
			a, err := allocator.NewLocalAllocator(allocator.LocalAllocatorConfig{Pools: []allocator.PoolConfig{{ID: "p1", CIDR: cidr, PrefixLength: unit}}})
			if err != nil {
				return nil, err
			}
			return &localPool{a: a}, nil
		}}
}

// ---------------------------------------------------------------- dhcp.Pool

func macOf(sub string) net.HardwareAddr {
	h := uint64(14695981039346656037)
	for i := 0; i < len(sub); i++ {
		h ^= uint64(sub[i])
		h *= 1099511628211
	}
	return net.HardwareAddr{0x02, byte(h >> 32), byte(h >> 24), byte(h >> 16), byte(h >> 8), byte(h)}
}

type dhcpPool struct {
	p    *dhcp.Pool
	mu   sync.Mutex
	mine map[string]netip.Prefix // what this adapter was told (needed because Release is by IP)
	// per-subscriber locks: dhcp.Pool releases by IP value whoever holds it (the server's lease table
	// guards that); the adapter therefore keeps its own table and the pool in step per subscriber,
	// while operations of different subscribers still run concurrently.
	subMu sync.Map
}

func (p *dhcpPool) lockSub(sub string) func() {
	m, _ := p.subMu.LoadOrStore(sub, &sync.Mutex{})
	m.(*sync.Mutex).Lock()
	return m.(*sync.Mutex).Unlock
}

func (p *dhcpPool) Alloc(sub string) (netip.Prefix, error) {
	defer p.lockSub(sub)()
	ip, err := p.p.Allocate(macOf(sub))
	if err != nil {
		return netip.Prefix{}, exh(err)
	}
	v := FromIP(ip)
	p.mu.Lock()
	p.mine[sub] = v
	p.mu.Unlock()
	return v, nil
}
func (p *dhcpPool) Release(sub string) error {
	defer p.lockSub(sub)()
	p.mu.Lock()
	v, ok := p.mine[sub]
	delete(p.mine, sub)
	p.mu.Unlock()
	if ok {
		p.p.Release(net.IP(v.Addr().AsSlice()))
	}
	return nil
}

// AllocSpecific is the INIT-REBOOT / selecting entry point of the pool (REQUEST naming an address).
func (p *dhcpPool) AllocSpecific(sub string, v netip.Prefix) error {
	defer p.lockSub(sub)()
	if err := p.p.AllocateSpecific(macOf(sub), net.IP(v.Addr().AsSlice())); err != nil {
		return err
	}
	p.mu.Lock()
	p.mine[sub] = v
	p.mu.Unlock()
	return nil
}

// ReleaseValue is dhcp.Pool's real API: release by address, whoever holds it (or nobody).
func (p *dhcpPool) ReleaseValue(v netip.Prefix) error {
	p.mu.Lock()
	for s, mv := range p.mine {
		if mv == v {
			delete(p.mine, s)
		}
	}
	p.mu.Unlock()
	p.p.Release(net.IP(v.Addr().AsSlice()))
	return nil
}
func (p *dhcpPool) Lookup(sub string) (netip.Prefix, bool, bool) { return netip.Prefix{}, false, false }
func (p *dhcpPool) Reverse(v netip.Prefix) (string, bool, bool)  { return "", false, false }
func (p *dhcpPool) List() (map[string]netip.Prefix, bool)        { return nil, false }
func (p *dhcpPool) Stats() (int, int, bool) {
	s := p.p.Stats()
	return s.Allocated, s.Total, true
}

// DHCP4 returns a spec for dhcp.Pool.
func DHCP4(cidr, gw string, resStart, resEnd int) *Spec {
	r := netip.MustParsePrefix(cidr).Masked()
	units := Units(r, 32)
	g := netip.MustParseAddr(gw)
	usable := 0
	hosts := len(units) - 2
	for i := 1; i <= hosts; i++ {
		if i <= resStart || i > hosts-resEnd {
			continue
		}
		if units[i].Addr() == g {
			continue
		}
		usable++
	}
	excl := []netip.Addr{g}
	if len(units) >= 2 {
		excl = append(excl, units[0].Addr(), units[len(units)-1].Addr())
	}
	return &Spec{Impl: "dhcp.Pool", Geom: fmt.Sprintf("%s gw=%s res=%d/%d", cidr, gw, resStart, resEnd), Range: r, UnitBits: 32, Usable: usable, Excluded: excl, Concurrent: true,
		New: func() (Pool, error) {
			p, err := dhcp.NewPool(dhcp.PoolConfig{ID: 1, Name: "t", Network: cidr, Gateway: gw, ReservedStart: resStart, ReservedEnd: resEnd})
			if err != nil {
				return nil, err
			}
			return &dhcpPool{p: p, mine: map[string]netip.Prefix{}}, nil
		}}
}

// ---------------------------------------------------------------- dhcpv6 pools

type v6addrPool struct{ p *dhcpv6.AddressPool }

func (p *v6addrPool) Alloc(sub string) (netip.Prefix, error) {
	ip := p.p.Allocate(sub)
	if ip == nil {
		return netip.Prefix{}, ErrExhausted
	}
	return FromIP(ip), nil
}
func (p *v6addrPool) Release(sub string) error { p.p.Release(sub); return nil }
func (p *v6addrPool) Lookup(sub string) (netip.Prefix, bool, bool) {
	return netip.Prefix{}, false, false
}
func (p *v6addrPool) Reverse(v netip.Prefix) (string, bool, bool) { return "", false, false }
func (p *v6addrPool) List() (map[string]netip.Prefix, bool)       { return nil, false }
func (p *v6addrPool) Stats() (int, int, bool)                     { return 0, 0, false }

// DHCP6Addr returns a spec for dhcpv6.AddressPool.
func DHCP6Addr(cidr string) *Spec {
	r := netip.MustParsePrefix(cidr).Masked()
	n := 128 - r.Bits()
	usable := 1000
	if n <= 10 && 1<<n-1 < 1000 {
		usable = 1<<n - 1 // the pool starts at base+1 (documented "simplified - just first 1000")
	}
	return &Spec{Impl: "dhcpv6.AddressPool", Geom: cidr, Range: r, UnitBits: 128, Usable: usable, Concurrent: true,
		New: func() (Pool, error) {
			p, err := dhcpv6.NewAddressPool(cidr, 3600, 7200)
			if err != nil {
				return nil, err
			}
			return &v6addrPool{p: p}, nil
		}}
}

type v6pdPool struct{ p *dhcpv6.PrefixPool }

func (p *v6pdPool) Alloc(sub string) (netip.Prefix, error) {
	n := p.p.Allocate(sub)
	if n == nil {
		return netip.Prefix{}, ErrExhausted
	}
	return FromIPNet(n), nil
}
func (p *v6pdPool) Release(sub string) error                     { p.p.Release(sub); return nil }
func (p *v6pdPool) Lookup(sub string) (netip.Prefix, bool, bool) { return netip.Prefix{}, false, false }
func (p *v6pdPool) Reverse(v netip.Prefix) (string, bool, bool)  { return "", false, false }
func (p *v6pdPool) List() (map[string]netip.Prefix, bool)        { return nil, false }
func (p *v6pdPool) Stats() (int, int, bool)                      { return 0, 0, false }

// DHCP6PD returns a spec for dhcpv6.PrefixPool.
func DHCP6PD(cidr string, dlen int) *Spec {
	r := netip.MustParsePrefix(cidr).Masked()
	n := dlen - r.Bits()
	usable := 1000
	if n <= 10 && 1<<n < 1000 {
		usable = 1 << n
	}
	return &Spec{Impl: "dhcpv6.PrefixPool", Geom: fmt.Sprintf("%s→/%d", cidr, dlen), Range: r, UnitBits: dlen, Usable: usable, Concurrent: true,
		New: func() (Pool, error) {
			p, err := dhcpv6.NewPrefixPool(cidr, uint8(dlen), 3600, 7200)
			if err != nil {
				return nil, err
			}
			return &v6pdPool{p: p}, nil
		}}
}

// ---------------------------------------------------------------- pppoe.IPPool (sequential only)

type pppoePool struct{ p *pppoe.IPPool }

func (p *pppoePool) Alloc(sub string) (netip.Prefix, error) {
	ip := p.p.Allocate(sub)
	if ip == nil {
		return netip.Prefix{}, ErrExhausted
	}
	return FromIP(ip), nil
}
func (p *pppoePool) Release(sub string) error { p.p.Release(sub); return nil }
func (p *pppoePool) Lookup(sub string) (netip.Prefix, bool, bool) {
	return netip.Prefix{}, false, false
}
func (p *pppoePool) Reverse(v netip.Prefix) (string, bool, bool) { return "", false, false }
func (p *pppoePool) List() (map[string]netip.Prefix, bool)       { return nil, false }
func (p *pppoePool) Stats() (int, int, bool)                     { return 0, 0, false }

// PPPoE returns a spec for pppoe.IPPool.
func PPPoE(cidr, gw string) *Spec {
	r := netip.MustParsePrefix(cidr).Masked()
	units := Units(r, 32)
	g := netip.MustParseAddr(gw)
	usable := 0
	for i := 1; i < len(units)-1; i++ {
		if units[i].Addr() != g {
			usable++
		}
	}
	excl := []netip.Addr{g}
	if len(units) >= 2 {
		excl = append(excl, units[0].Addr(), units[len(units)-1].Addr())
	}
	return &Spec{Impl: "pppoe.IPPool", Geom: fmt.Sprintf("%s gw=%s", cidr, gw), Range: r, UnitBits: 32, Usable: usable, Excluded: excl, Concurrent: false,
		New: func() (Pool, error) {
			p, err := pppoe.NewIPPool(cidr, gw)
			if err != nil {
				return nil, err
			}
			return &pppoePool{p: p}, nil
		}}
}

// ---------------------------------------------------------------- pool.PeerPool (single node: everything is local)

type peerPool struct{ p *pool.PeerPool }

func (p *peerPool) Alloc(sub string) (netip.Prefix, error) {
	r, err := p.p.Allocate(bg, sub, nil)
	if err != nil {
		return netip.Prefix{}, exh(err)
	}
	a, err := netip.ParseAddr(r.IP)
	if err != nil {
		return netip.Prefix{}, err
	}
	return netip.PrefixFrom(a, 32), nil
}
func (p *peerPool) Release(sub string) error { return p.p.Release(bg, sub) }
func (p *peerPool) Lookup(sub string) (netip.Prefix, bool, bool) {
	r, ok := p.p.Get(sub)
	if !ok {
		return netip.Prefix{}, false, true
	}
	a, _ := netip.ParseAddr(r.IP)
	return netip.PrefixFrom(a, 32), true, true
}
func (p *peerPool) Reverse(v netip.Prefix) (string, bool, bool) { return "", false, false }
func (p *peerPool) List() (map[string]netip.Prefix, bool)       { return nil, false }
func (p *peerPool) Stats() (int, int, bool) {
	s := p.p.Stats()
	return s.Allocated, s.Total, true
}

// Peer returns a spec for a single-node PeerPool (local pool).
func Peer(cidr, gw string) *Spec {
	r := netip.MustParsePrefix(cidr).Masked()
	units := Units(r, 32)
	g := netip.MustParseAddr(gw)
	usable := 0
	for i := 1; i < len(units)-1; i++ {
		if units[i].Addr() != g {
			usable++
		}
	}
	excl := []netip.Addr{g}
	if len(units) >= 2 {
		excl = append(excl, units[0].Addr(), units[len(units)-1].Addr())
	}
	return &Spec{Impl: "pool.PeerPool/local", Geom: fmt.Sprintf("%s gw=%s", cidr, gw), Range: r, UnitBits: 32, Usable: usable, Excluded: excl, Concurrent: true,
		New: func() (Pool, error) {
			p, err := pool.NewPeerPool(pool.PeerPoolConfig{NodeID: "n1", Peers: []string{"n1"}, Network: cidr, Gateway: gw, Logger: zap.NewNop()})
			if err != nil {
				return nil, err
			}
			return &peerPool{p: p}, nil
		}}
}

// ---------------------------------------------------------------- pool.PeerPool cluster (forwarded paths)

// peerCluster is three PeerPool nodes, each with its own subnet, joined by an in-memory HTTP transport that
// serves each node's registered handlers. Calls enter through a rotating front node, so most of them are
// forwarded to the owner (forwardAllocation / forwardRelease / the owner's handlers).
type peerCluster struct {
	nodes []*pool.PeerPool
	names []string
	n     int
	tr    *memTransport
}

// PeerClusterHandle exposes the cluster to scenario tests (owner outage and recovery).
type PeerClusterHandle struct{ c *peerCluster }

// AsPeerCluster returns a handle if p is a peer cluster.
func AsPeerCluster(p Pool) (*PeerClusterHandle, bool) {
	c, ok := p.(*peerCluster)
	if !ok {
		return nil, false
	}
	return &PeerClusterHandle{c}, true
}

// Nodes returns the node names.
func (h *PeerClusterHandle) Nodes() []string { return h.c.names }

// Owner returns the node every node computes as owner of sub (healthy or not).
func (h *PeerClusterHandle) Owner(sub string) string { return h.c.nodes[0].GetOwner(sub) }

// SetReachable makes node n (un)reachable and lets every other node probe it with its real checkPeer until
// its health view has followed (threshold failed probes, or one good probe).
func (h *PeerClusterHandle) SetReachable(n string, up bool) {
	h.c.tr.setDown(n, !up)
	for i, nm := range h.c.names {
		if nm == n {
			continue
		}
		for k := 0; k < h.c.nodes[i].VerifC17HealthThreshold()+1; k++ {
			h.c.nodes[i].VerifC17CheckPeer(bg, n)
		}
	}
}

// AllocateAt / ReleaseAt enter at the named node.
func (h *PeerClusterHandle) AllocateAt(n, sub string) (string, string, error) {
	for i, nm := range h.c.names {
		if nm == n {
			r, err := h.c.nodes[i].Allocate(bg, sub, nil)
			if err != nil {
				return "", "", err
			}
			return r.IP, r.NodeID, nil
		}
	}
	return "", "", fmt.Errorf("no node %s", n)
}
func (h *PeerClusterHandle) ReleaseAt(n, sub string) error {
	for i, nm := range h.c.names {
		if nm == n {
			return h.c.nodes[i].Release(bg, sub)
		}
	}
	return fmt.Errorf("no node %s", n)
}

// Allocated returns each node's Stats().Allocated.
func (h *PeerClusterHandle) Allocated() map[string]int {
	out := map[string]int{}
	for i, nm := range h.c.names {
		out[nm] = h.c.nodes[i].Stats().Allocated
	}
	return out
}

type memTransport struct {
	mux  map[string]*http.ServeMux
	mu   sync.Mutex
	down map[string]bool
}

func (m *memTransport) setDown(n string, d bool) {
	m.mu.Lock()
	if m.down == nil {
		m.down = map[string]bool{}
	}
	m.down[n] = d
	m.mu.Unlock()
}

func (m *memTransport) RoundTrip(r *http.Request) (*http.Response, error) {
	m.mu.Lock()
	d := m.down[r.URL.Host]
	m.mu.Unlock()
	if d {
		return nil, fmt.Errorf("connection refused (%s is down)", r.URL.Host)
	}
	h, ok := m.mux[r.URL.Host]
	if !ok {
		return nil, fmt.Errorf("no such peer %q", r.URL.Host)
	}
	rec := httptest.NewRecorder()
	h.ServeHTTP(rec, r)
	return rec.Result(), nil
}

func (p *peerCluster) front() *pool.PeerPool { p.n++; return p.nodes[p.n%len(p.nodes)] }
func (p *peerCluster) Alloc(sub string) (netip.Prefix, error) {
	r, err := p.front().Allocate(bg, sub, nil)
	if err != nil {
		return netip.Prefix{}, exh(err)
	}
	a, err := netip.ParseAddr(r.IP)
	if err != nil {
		return netip.Prefix{}, err
	}
	return netip.PrefixFrom(a, 32), nil
}
func (p *peerCluster) Release(sub string) error { return p.front().Release(bg, sub) }
func (p *peerCluster) owner(sub string) *pool.PeerPool {
	o := p.nodes[0].GetOwner(sub)
	for i, n := range p.names {
		if n == o {
			return p.nodes[i]
		}
	}
	return nil
}
func (p *peerCluster) Lookup(sub string) (netip.Prefix, bool, bool) {
	o := p.owner(sub)
	if o == nil {
		return netip.Prefix{}, false, true
	}
	r, ok := o.Get(sub)
	if !ok {
		return netip.Prefix{}, false, true
	}
	a, _ := netip.ParseAddr(r.IP)
	return netip.PrefixFrom(a, 32), true, true
}
func (p *peerCluster) Reverse(v netip.Prefix) (string, bool, bool) { return "", false, false }
func (p *peerCluster) List() (map[string]netip.Prefix, bool)       { return nil, false }
func (p *peerCluster) Stats() (int, int, bool) {
	a, t := 0, 0
	for _, n := range p.nodes {
		s := n.Stats()
		a += s.Allocated
		t += s.Total
	}
	return a, t, true
}

// PeerCluster returns the three-node spec; bits is the prefix length of each node's own subnet.
// Exhaustion is per owner (a subscriber can only be served from its owner's subnet), so the usable count
// of the whole is not a bound the engine can use: Usable is -1 and conservation is judged by Stats and lookups.
func PeerCluster(base string, bits int) *Spec {
	r := netip.MustParsePrefix(base).Masked()
	names := []string{"n1", "n2", "n3"}
	subs := Units(netip.PrefixFrom(r.Addr(), bits-2), bits)
	var excl []netip.Addr
	for _, sn := range subs[:3] {
		u := Units(sn, 32)
		excl = append(excl, u[0].Addr(), u[1].Addr(), u[len(u)-1].Addr())
	}
	return &Spec{Impl: "pool.PeerPool/cluster", Geom: fmt.Sprintf("3 nodes x /%d from %s", bits, r.Addr()), Range: netip.PrefixFrom(r.Addr(), bits-2), UnitBits: 32, Usable: -1, Excluded: excl, Concurrent: true,
		New: func() (Pool, error) {
			tr := &memTransport{mux: map[string]*http.ServeMux{}}
			pc := &peerCluster{names: names, tr: tr}
			for i, nm := range names {
				u := Units(subs[i], 32)
				n, err := pool.NewPeerPool(pool.PeerPoolConfig{NodeID: nm, Peers: names, Network: subs[i].String(), Gateway: u[1].Addr().String(), Logger: zap.NewNop()})
				if err != nil {
					return nil, err
				}
				cl := &http.Client{Transport: tr}
				n.VerifC17SetHTTPClients(cl, cl)
				mux := http.NewServeMux()
				n.RegisterHandlers(mux)
				tr.mux[nm] = mux
				pc.nodes = append(pc.nodes, n)
			}
			return pc, nil
		}}
}

// ---------------------------------------------------------------- nexus.Client hash-based allocation

type nexusPool struct {
	c     *nexus.Client
	known map[string]bool
	nstat int
	rng   netip.Prefix
}

func (p *nexusPool) usable(v netip.Prefix) bool {
	if !p.rng.IsValid() || v.Bits() != 32 || !p.rng.Contains(v.Addr()) {
		return false
	}
	u := Units(p.rng, 32)
	return len(u) >= 3 && v.Addr() != u[0].Addr() && v.Addr() != u[len(u)-1].Addr()
}

// AllocSpecific provisions sub statically on v the way an operator does: the subscriber record is written
// with the address filled in (and, every other time, without a pool id: the pool is then implied by the
// default). A careful operator does not provision an address somebody holds, nor a subscriber that has one.
func (p *nexusPool) AllocSpecific(sub string, v netip.Prefix) error {
	// (the record is written by the operator's tooling, which provisions usable addresses of the pool only:
	// nothing in bng validates it, so an address outside the pool would be the operator's error, not bng's)
	if !p.usable(v) {
		return fmt.Errorf("not a usable address of the pool")
	}
	if _, ok := p.c.LookupSubscriberIP(sub); ok {
		return fmt.Errorf("subscriber has an address")
	}
	for k := range p.known {
		if a, ok := p.c.LookupSubscriberIP(k); ok && a == v.Addr().String() {
			return fmt.Errorf("address is held")
		}
	}
	p.known[sub] = true
	p.nstat++
	rec := &nexus.Subscriber{ID: sub, IPv4Addr: v.Addr().String(), State: "active"}
	if p.nstat%2 == 0 {
		rec.IPv4Pool = "p1"
	}
	return p.c.SaveSubscriber(bg, rec)
}

func (p *nexusPool) ensure(sub string) {
	p.known[sub] = true
	if _, ok := p.c.GetSubscriber(sub); ok {
		return
	}
	// subscribers are provisioned through the store; the cache is fed by the (asynchronous) watcher,
	// so provisioning waits until the client sees it.
	// (the harness store delivers watch callbacks synchronously, so the cache is up to date on return)
	_ = p.c.SaveSubscriber(bg, &nexus.Subscriber{ID: sub, IPv4Pool: "p1", State: "active"})
}
func (p *nexusPool) Alloc(sub string) (netip.Prefix, error) {
	p.ensure(sub)
	s, err := p.c.AllocateIPForSubscriber(bg, sub)
	if err != nil {
		return netip.Prefix{}, exh(err)
	}
	a, err := netip.ParseAddr(s)
	if err != nil {
		return netip.Prefix{}, err
	}
	return netip.PrefixFrom(a, 32), nil
}
func (p *nexusPool) Release(sub string) error {
	p.ensure(sub)
	return p.c.ReleaseSubscriberIP(bg, sub)
}
func (p *nexusPool) Lookup(sub string) (netip.Prefix, bool, bool) {
	s, ok := p.c.LookupSubscriberIP(sub)
	if !ok {
		return netip.Prefix{}, false, true
	}
	a, err := netip.ParseAddr(s)
	if err != nil {
		return netip.Prefix{}, false, true
	}
	return netip.PrefixFrom(a, 32), true, true
}
func (p *nexusPool) Reverse(v netip.Prefix) (string, bool, bool) { return "", false, false }
func (p *nexusPool) List() (map[string]netip.Prefix, bool)       { return nil, false }
func (p *nexusPool) Stats() (int, int, bool)                     { return 0, 0, false }

// Nexus returns a spec for nexus.Client.AllocateIPForSubscriber over an in-memory nexus store.
func Nexus(cidr string) *Spec {
	r := netip.MustParsePrefix(cidr).Masked()
	units := Units(r, 32)
	var excl []netip.Addr
	usable := -1
	if len(units) >= 2 {
		excl = []netip.Addr{units[0].Addr(), units[len(units)-1].Addr()}
		usable = len(units) - 2
	}
	return &Spec{Impl: "nexus.Client.AllocateIPForSubscriber", Geom: cidr, Range: r, UnitBits: 32, Usable: usable, Excluded: excl, Concurrent: false,
		New: func() (Pool, error) {
			st := newSyncNexusStore()
			c := nexus.NewClient(nexus.DefaultClientConfig(), st, zap.NewNop())
			if err := c.Pools.Put(bg, "p1", &nexus.IPPool{ID: "p1", CIDR: cidr, Type: "residential"}); err != nil {
				return nil, err
			}
			if err := c.Start(); err != nil {
				return nil, err
			}
			return &nexusPool{c: c, known: map[string]bool{}, rng: r}, nil
		}}
}

// Close releases background resources of a pool, if any.
func Close(p Pool) {
	if np, ok := p.(*nexusPool); ok {
		np.c.Stop()
	}
	if tp, ok := p.(*distTickerPool); ok {
		tp.stop()
	}
}

// syncNexusStore is an in-memory nexus.Store whose watch callbacks run synchronously in
// Put/Delete, so that the client's cache is a deterministic function of the history
// (nexus.MemoryStore delivers them on fresh goroutines in no particular order).
type syncNexusStore struct {
	mu       sync.Mutex
	data     map[string][]byte
	watchers []struct {
		prefix string
		cb     nexus.WatchCallback
	}
}

func newSyncNexusStore() *syncNexusStore { return &syncNexusStore{data: map[string][]byte{}} }

func (m *syncNexusStore) Get(ctx context.Context, key string) ([]byte, error) {
	m.mu.Lock()
	defer m.mu.Unlock()
	if v, ok := m.data[key]; ok {
		return append([]byte(nil), v...), nil
	}
	return nil, nexus.ErrNotFound
}
func (m *syncNexusStore) notify(key string, value []byte, deleted bool) {
	m.mu.Lock()
	ws := append([]struct {
		prefix string
		cb     nexus.WatchCallback
	}{}, m.watchers...)
	m.mu.Unlock()
	for _, w := range ws {
		if strings.HasPrefix(key, w.prefix) {
			w.cb(key, value, deleted)
		}
	}
}
func (m *syncNexusStore) Put(ctx context.Context, key string, value []byte) error {
	m.mu.Lock()
	m.data[key] = append([]byte(nil), value...)
	m.mu.Unlock()
	m.notify(key, value, false)
	return nil
}
func (m *syncNexusStore) Delete(ctx context.Context, key string) error {
	m.mu.Lock()
	delete(m.data, key)
	m.mu.Unlock()
	m.notify(key, nil, true)
	return nil
}
func (m *syncNexusStore) Query(ctx context.Context, prefix string) ([]nexus.KeyValue, error) {
	m.mu.Lock()
	defer m.mu.Unlock()
	var ks []string
	for k := range m.data {
		if strings.HasPrefix(k, prefix) {
			ks = append(ks, k)
		}
	}
	sort.Strings(ks)
	var out []nexus.KeyValue
	for _, k := range ks {
		out = append(out, nexus.KeyValue{Key: k, Value: append([]byte(nil), m.data[k]...)})
	}
	return out, nil
}
func (m *syncNexusStore) Watch(prefix string, cb nexus.WatchCallback) {
	m.mu.Lock()
	m.watchers = append(m.watchers, struct {
		prefix string
		cb     nexus.WatchCallback
	}{prefix, cb})
	m.mu.Unlock()
}
func (m *syncNexusStore) Close() error { return nil }

func (p *distLeasePool) FaultPending() bool { return p.in.FaultPending() }

var _ FaultInjectable = (*distLeasePool)(nil)
var _ FaultInjectable = (*distPool)(nil)
var _ FaultInjectable = (*poolAllocPool)(nil)
