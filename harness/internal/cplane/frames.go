package cplane

import (
	"encoding/binary"
	"net"
)

// Eth builds an Ethernet header (+ optional VLAN tags given as (tpid, tci) pairs) followed by payload.
func Eth(dst, src net.HardwareAddr, ethertype uint16, vlans [][2]uint16, payload []byte) []byte {
	b := make([]byte, 0, 14+4*len(vlans)+len(payload))
	b = append(b, dst...)
	b = append(b, src...)
	for _, v := range vlans {
		b = binary.BigEndian.AppendUint16(b, v[0])
		b = binary.BigEndian.AppendUint16(b, v[1])
	}
	b = binary.BigEndian.AppendUint16(b, ethertype)
	return append(b, payload...)
}

// IPChecksum computes the Internet checksum of b.
func IPChecksum(b []byte) uint16 {
	var s uint32
	for i := 0; i+1 < len(b); i += 2 {
		s += uint32(b[i])<<8 | uint32(b[i+1])
	}
	if len(b)%2 == 1 {
		s += uint32(b[len(b)-1]) << 8
	}
	for s>>16 != 0 {
		s = s&0xffff + s>>16
	}
	return ^uint16(s)
}

// IPv4 builds an IPv4 header with ihl words (5..15; options zero-filled) and payload.
func IPv4(src, dst net.IP, proto uint8, ihl int, payload []byte) []byte {
	if ihl < 5 {
		ihl = 5
	}
	h := make([]byte, ihl*4)
	h[0] = 0x40 | byte(ihl)
	binary.BigEndian.PutUint16(h[2:], uint16(len(h)+len(payload)))
	h[8] = 64
	h[9] = proto
	copy(h[12:16], src.To4())
	copy(h[16:20], dst.To4())
	binary.BigEndian.PutUint16(h[10:], IPChecksum(h))
	return append(h, payload...)
}

// IPv6 builds an IPv6 header and payload.
func IPv6(src, dst net.IP, next uint8, payload []byte) []byte {
	h := make([]byte, 40)
	h[0] = 0x60
	binary.BigEndian.PutUint16(h[4:], uint16(len(payload)))
	h[6] = next
	h[7] = 64
	copy(h[8:24], src.To16())
	copy(h[24:40], dst.To16())
	return append(h, payload...)
}

// UDP builds a UDP header (checksum 0) and payload.
func UDP(sport, dport uint16, payload []byte) []byte {
	h := make([]byte, 8)
	binary.BigEndian.PutUint16(h[0:], sport)
	binary.BigEndian.PutUint16(h[2:], dport)
	binary.BigEndian.PutUint16(h[4:], uint16(8+len(payload)))
	return append(h, payload...)
}
