// Package cplane drives the C data-plane programs: natively (bpfrun child processes built with
// ASan+UBSan and guard pages, engine E5) and in the real kernel through BPF_PROG_TEST_RUN (E6).
package cplane

import (
	"bufio"
	"bytes"
	"encoding/binary"
	"errors"
	"fmt"
	"io"
	"os"
	"os/exec"
	"path/filepath"
	"strings"

	"github.com/cilium/ebpf"
)

// OutDir is where cplane/build.sh put its artefacts for the repository being checked.
func OutDir() string {
	repo := os.Getenv("VERIF_REPO")
	if repo == "" {
		repo = "/repo"
	}
	tag := strings.Map(func(r rune) rune {
		if (r >= 'a' && r <= 'z') || (r >= 'A' && r <= 'Z') || (r >= '0' && r <= '9') {
			return r
		}
		return '_'
	}, repo+"\n")
	v := os.Getenv("VERIF_DIR")
	if v == "" {
		v = "/verif"
	}
	return filepath.Join(v, ".build", "cplane-"+tag)
}

// MapInfo describes one map of a program file as declared in C.
type MapInfo struct {
	Name                                   string
	Type, KeySize, ValueSize, MaxEntries int
}

// Access is one map access performed by the program during a run.
type Access struct {
	Map string
	Op  byte // 'l' lookup, 'u' update, 'd' delete
	Hit bool
	Key []byte
}

// Event is a perf/ringbuf record emitted during a run.
type Event struct {
	Map  string
	Data []byte
}

// Result of one native run.
type Result struct {
	Verdict    int64
	Out        []byte
	Priority   uint32
	Mark       uint32
	ClockCalls int
	Log        []Access
	Events     []Event
}

// RunOpt are context fields for a run.
type RunOpt struct {
	Placement int // 0 = frame flush against the following guard page, 1 = flush after the preceding one
	IfIndex   uint32
	Mark      uint32
	Priority  uint32
	Protocol  uint32
}

// Runner is one bpfrun child process.
type Runner struct {
	Name    string
	cmd     *exec.Cmd
	in      *bufio.Writer
	inRaw   io.WriteCloser
	out     *bufio.Reader
	stderr  *bytes.Buffer
	journal *os.File
	dead    error
	maps    []MapInfo
	progs   map[string]int
}

// ErrDied is wrapped by errors returned after the child process died (sanitizer report, guard-page fault, abort).
var ErrDied = errors.New("bpfrun child died")

// Start launches bpfrun_<name>. journalPath (optional) receives each command before it is sent.
func Start(name, journalPath string) (*Runner, error) {
	bin := filepath.Join(OutDir(), "native", "bpfrun_"+name)
	cmd := exec.Command(bin)
	cmd.Env = append(os.Environ(), "ASAN_OPTIONS=abort_on_error=0:halt_on_error=1:detect_leaks=0:exitcode=66", "UBSAN_OPTIONS=halt_on_error=1:print_stacktrace=1:exitcode=67")
	w, err := cmd.StdinPipe()
	if err != nil {
		return nil, err
	}
	rp, err := cmd.StdoutPipe()
	if err != nil {
		return nil, err
	}
	r := &Runner{Name: name, cmd: cmd, in: bufio.NewWriterSize(w, 1<<16), inRaw: w, out: bufio.NewReaderSize(rp, 1<<16), stderr: &bytes.Buffer{}, progs: map[string]int{}}
	cmd.Stderr = r.stderr
	if journalPath != "" {
		r.journal, _ = os.Create(journalPath)
	}
	if err := cmd.Start(); err != nil {
		return nil, err
	}
	// maps
	r.in.WriteByte('Q')
	r.in.Flush()
	n, err := r.r32()
	if err != nil {
		return nil, r.fail(err)
	}
	for i := 0; i < int(n); i++ {
		nm, _ := r.rblob()
		t, _ := r.r32()
		k, _ := r.r32()
		v, _ := r.r32()
		m, _ := r.r32()
		r.maps = append(r.maps, MapInfo{string(nm), int(t), int(k), int(v), int(m)})
	}
	r.in.WriteByte('P')
	r.in.Flush()
	n, err = r.r32()
	if err != nil {
		return nil, r.fail(err)
	}
	for i := 0; i < int(n); i++ {
		nm, _ := r.rblob()
		k, _ := r.r32()
		r.progs[string(nm)] = int(k)
	}
	return r, nil
}

func (r *Runner) fail(err error) error {
	if r.dead != nil {
		return r.dead
	}
	r.inRaw.Close()
	werr := r.cmd.Wait()
	msg := r.stderr.String()
	if len(msg) > 6000 {
		msg = msg[:6000]
	}
	r.dead = fmt.Errorf("%w (%v; %v): %s", ErrDied, err, werr, msg)
	return r.dead
}

// Stderr returns what the child wrote to stderr so far.
func (r *Runner) Stderr() string { return r.stderr.String() }

// Maps returns the map declarations.
func (r *Runner) Maps() []MapInfo { return r.maps }

// Map returns one declaration.
func (r *Runner) Map(name string) (MapInfo, bool) {
	for _, m := range r.maps {
		if m.Name == name {
			return m, true
		}
	}
	return MapInfo{}, false
}

// Progs returns program name -> kind (0 xdp, 1 tc).
func (r *Runner) Progs() map[string]int { return r.progs }

func (r *Runner) r32() (uint32, error) {
	var b [4]byte
	if _, err := io.ReadFull(r.out, b[:]); err != nil {
		return 0, err
	}
	return binary.LittleEndian.Uint32(b[:]), nil
}
func (r *Runner) rblob() ([]byte, error) {
	n, err := r.r32()
	if err != nil {
		return nil, err
	}
	b := make([]byte, n)
	_, err = io.ReadFull(r.out, b)
	return b, err
}
func (r *Runner) w32(v uint32) {
	var b [4]byte
	binary.LittleEndian.PutUint32(b[:], v)
	r.in.Write(b[:])
}
func (r *Runner) wblob(b []byte) { r.w32(uint32(len(b))); r.in.Write(b) }

func (r *Runner) note(format string, a ...any) {
	if r.journal != nil {
		r.journal.Truncate(0)
		r.journal.Seek(0, 0)
		fmt.Fprintf(r.journal, format, a...)
	}
}

// Write updates a map entry. Returns the helper-style return code.
func (r *Runner) Write(m string, k, v []byte, flags uint32) (int32, error) {
	if r.dead != nil {
		return 0, r.dead
	}
	r.in.WriteByte('W')
	r.wblob([]byte(m))
	r.wblob(k)
	r.wblob(v)
	r.w32(flags)
	r.in.Flush()
	rc, err := r.r32()
	if err != nil {
		return 0, r.fail(err)
	}
	return int32(rc), nil
}

// Delete removes a map entry.
func (r *Runner) Delete(m string, k []byte) (int32, error) {
	if r.dead != nil {
		return 0, r.dead
	}
	r.in.WriteByte('E')
	r.wblob([]byte(m))
	r.wblob(k)
	r.in.Flush()
	rc, err := r.r32()
	if err != nil {
		return 0, r.fail(err)
	}
	return int32(rc), nil
}

// Get reads a map entry.
func (r *Runner) Get(m string, k []byte) ([]byte, bool, error) {
	if r.dead != nil {
		return nil, false, r.dead
	}
	r.in.WriteByte('G')
	r.wblob([]byte(m))
	r.wblob(k)
	r.in.Flush()
	f, err := r.r32()
	if err != nil {
		return nil, false, r.fail(err)
	}
	if f == 0 {
		return nil, false, nil
	}
	v, err := r.rblob()
	if err != nil {
		return nil, false, r.fail(err)
	}
	return v, true, nil
}

// List dumps a (non-array) map.
func (r *Runner) List(m string) ([][2][]byte, error) {
	if r.dead != nil {
		return nil, r.dead
	}
	r.in.WriteByte('L')
	r.wblob([]byte(m))
	r.in.Flush()
	n, err := r.r32()
	if err != nil {
		return nil, r.fail(err)
	}
	out := make([][2][]byte, 0, n)
	for i := 0; i < int(n); i++ {
		k, err := r.rblob()
		if err != nil {
			return nil, r.fail(err)
		}
		v, err := r.rblob()
		if err != nil {
			return nil, r.fail(err)
		}
		out = append(out, [2][]byte{k, v})
	}
	return out, nil
}

// Reset empties every map.
func (r *Runner) Reset() error {
	if r.dead != nil {
		return r.dead
	}
	r.in.WriteByte('Z')
	r.in.Flush()
	if _, err := r.r32(); err != nil {
		return r.fail(err)
	}
	return nil
}

// Clock sets the values successive bpf_ktime_get_ns calls return (the last one repeats).
func (r *Runner) Clock(vals ...uint64) error {
	if r.dead != nil {
		return r.dead
	}
	r.in.WriteByte('T')
	r.w32(uint32(len(vals)))
	var b [8]byte
	for _, v := range vals {
		binary.LittleEndian.PutUint64(b[:], v)
		r.in.Write(b[:])
	}
	r.in.Flush()
	if _, err := r.r32(); err != nil {
		return r.fail(err)
	}
	return nil
}

// Run executes a program on a frame. An error wrapping ErrDied means the child was killed by a
// sanitizer report, a guard-page fault or an abort; its stderr is part of the error text.
func (r *Runner) Run(prog string, frame []byte, o RunOpt) (*Result, error) {
	if r.dead != nil {
		return nil, r.dead
	}
	r.note("run prog=%s placement=%d len=%d frame=%x\n", prog, o.Placement, len(frame), frame)
	r.in.WriteByte('X')
	r.wblob([]byte(prog))
	r.w32(uint32(o.Placement))
	r.w32(o.IfIndex)
	r.w32(o.Mark)
	r.w32(o.Priority)
	r.w32(o.Protocol)
	r.wblob(frame)
	r.in.Flush()
	st, err := r.r32()
	if err != nil {
		return nil, r.fail(err)
	}
	if st != 0 {
		return nil, fmt.Errorf("bpfrun refused run of %s (unknown program or frame too long)", prog)
	}
	res := &Result{}
	var b [8]byte
	if _, err := io.ReadFull(r.out, b[:]); err != nil {
		return nil, r.fail(err)
	}
	res.Verdict = int64(binary.LittleEndian.Uint64(b[:]))
	if res.Out, err = r.rblob(); err != nil {
		return nil, r.fail(err)
	}
	p, _ := r.r32()
	mk, _ := r.r32()
	cc, _ := r.r32()
	res.Priority, res.Mark, res.ClockCalls = p, mk, int(cc)
	nl, err := r.r32()
	if err != nil {
		return nil, r.fail(err)
	}
	for i := 0; i < int(nl); i++ {
		nm, _ := r.rblob()
		op, _ := r.r32()
		hit, _ := r.r32()
		k, err := r.rblob()
		if err != nil {
			return nil, r.fail(err)
		}
		res.Log = append(res.Log, Access{string(nm), byte(op), hit != 0, k})
	}
	ne, err := r.r32()
	if err != nil {
		return nil, r.fail(err)
	}
	for i := 0; i < int(ne); i++ {
		nm, _ := r.rblob()
		d, err := r.rblob()
		if err != nil {
			return nil, r.fail(err)
		}
		res.Events = append(res.Events, Event{string(nm), d})
	}
	return res, nil
}

// Close ends the child.
func (r *Runner) Close() {
	if r.dead == nil {
		r.inRaw.Close()
		r.cmd.Wait()
		r.dead = errors.New("closed")
	}
	if r.journal != nil {
		r.journal.Close()
	}
}

// ---------------------------------------------------------------- kernel side (E6)

// Kernel is one program file loaded into the running kernel.
type Kernel struct {
	Name string
	Spec *ebpf.CollectionSpec
	Coll *ebpf.Collection
}

// LoadKernel loads <name>.o built by cplane/build.sh. MaxEntries of big maps are clamped so
// that pre-allocated hash maps stay small. A verifier rejection is returned as the error.
func LoadKernel(name string) (*Kernel, error) { return LoadKernelSized(name, 4096) }

// LoadKernelSized loads the object with every map declared larger than maxEntries shrunk to maxEntries (the map
// TYPE and flags stay as the source declares them): what the program and the control plane do when a map is full
// can then be observed with a few hundred entries instead of a million.
func LoadKernelSized(name string, maxEntries uint32) (*Kernel, error) {
	return LoadKernelSizedPer(name, maxEntries, nil)
}

// LoadKernelSizedPer is LoadKernelSized with an own bound for the maps named in per (so that one of two maps that
// are written together fills up before the other).
func LoadKernelSizedPer(name string, maxEntries uint32, per map[string]uint32) (*Kernel, error) {
	spec, err := ebpf.LoadCollectionSpec(filepath.Join(OutDir(), "bpf", name+".o"))
	if err != nil {
		return nil, err
	}
	for mn, m := range spec.Maps {
		lim := maxEntries
		if v, ok := per[mn]; ok {
			lim = v
		}
		if m.MaxEntries > lim && m.Type != ebpf.RingBuf && m.Type != ebpf.PerfEventArray {
			m.MaxEntries = lim
		}
	}
	coll, err := ebpf.NewCollection(spec)
	if err != nil {
		return nil, err
	}
	return &Kernel{Name: name, Spec: spec, Coll: coll}, nil
}

// Run executes a program in the kernel through BPF_PROG_TEST_RUN.
func (k *Kernel) Run(prog string, frame []byte) (uint32, []byte, error) {
	p := k.Coll.Programs[prog]
	if p == nil {
		return 0, nil, fmt.Errorf("no program %s", prog)
	}
	out := make([]byte, len(frame)+512)
	opts := ebpf.RunOptions{Data: frame, DataOut: out, Repeat: 1}
	ret, err := p.Run(&opts)
	if err != nil {
		return 0, nil, err
	}
	return ret, opts.DataOut, nil
}

// Close releases kernel objects.
func (k *Kernel) Close() {
	if k.Coll != nil {
		k.Coll.Close()
	}
}

// Offer is one packet of a scripted arrival sequence.
type Offer struct {
	T   uint64 // value bpf_ktime_get_ns returns for this packet
	Len uint32 // skb->len
}

// Sequence runs a TC program on one frame for every offer (clock and skb->len scripted) and returns the verdicts.
func (r *Runner) Sequence(prog string, frame []byte, placement int, offers []Offer) ([]byte, error) {
	if r.dead != nil {
		return nil, r.dead
	}
	r.note("sequence prog=%s n=%d frame=%x\n", prog, len(offers), frame)
	r.in.WriteByte('S')
	r.wblob([]byte(prog))
	r.w32(uint32(placement))
	r.wblob(frame)
	r.w32(uint32(len(offers)))
	var b [12]byte
	for _, o := range offers {
		binary.LittleEndian.PutUint64(b[0:], o.T)
		binary.LittleEndian.PutUint32(b[8:], o.Len)
		r.in.Write(b[:])
	}
	r.in.Flush()
	n, err := r.r32()
	if err != nil {
		return nil, r.fail(err)
	}
	v := make([]byte, n)
	if _, err := io.ReadFull(r.out, v); err != nil {
		return nil, r.fail(err)
	}
	return v, nil
}

// TraceEnt is one offer of a backlogged run.
type TraceEnt struct {
	T       uint64
	Len     uint32
	Verdict byte
}

// Backlog drives a source that always has a packet waiting: an admitted packet is followed by the next
// one at the same instant, a dropped one is re-offered gap ns later, until tEnd or maxN offers.
func (r *Runner) Backlog(prog string, frame []byte, placement int, t0, tEnd, gap uint64, maxN int, sizes []uint32) ([]TraceEnt, error) {
	if r.dead != nil {
		return nil, r.dead
	}
	r.note("backlog prog=%s t0=%d tend=%d gap=%d sizes=%v frame=%x\n", prog, t0, tEnd, gap, sizes, frame)
	r.in.WriteByte('K')
	r.wblob([]byte(prog))
	r.w32(uint32(placement))
	r.wblob(frame)
	var b [8]byte
	for _, v := range []uint64{t0, tEnd, gap} {
		binary.LittleEndian.PutUint64(b[:], v)
		r.in.Write(b[:])
	}
	r.w32(uint32(maxN))
	r.w32(uint32(len(sizes)))
	for _, s := range sizes {
		r.w32(s)
	}
	r.in.Flush()
	n, err := r.r32()
	if err != nil {
		return nil, r.fail(err)
	}
	out := make([]TraceEnt, n)
	var e [13]byte
	for i := range out {
		if _, err := io.ReadFull(r.out, e[:]); err != nil {
			return nil, r.fail(err)
		}
		out[i] = TraceEnt{binary.LittleEndian.Uint64(e[0:]), binary.LittleEndian.Uint32(e[8:]), e[12]}
	}
	return out, nil
}

// Member is one struct member as the C compiler laid it out (Member == "" is the struct itself: Size = sizeof).
type Member struct {
	Struct, Member string
	Off, Size      int
}

// Layout returns offsetof/sizeof for every struct defined in the program file.
func (r *Runner) Layout() ([]Member, error) {
	if r.dead != nil {
		return nil, r.dead
	}
	r.in.WriteByte('Y')
	r.in.Flush()
	n, err := r.r32()
	if err != nil {
		return nil, r.fail(err)
	}
	out := make([]Member, 0, n)
	for i := 0; i < int(n); i++ {
		st, _ := r.rblob()
		mb, _ := r.rblob()
		off, _ := r.r32()
		sz, err := r.r32()
		if err != nil {
			return nil, r.fail(err)
		}
		out = append(out, Member{string(st), string(mb), int(off), int(sz)})
	}
	return out, nil
}
