package vk

import (
	"os"
	"path/filepath"
	"regexp"
	"strings"
)

// RaceReport is one parsed "WARNING: DATA RACE" block.
type RaceReport struct {
	A, B  string // innermost bng frame of each access: "pkg/x/file.go:func"
	FileA string
	FileB string
	Raw   string
}

var lineNo = regexp.MustCompile(`:\d+( \+0x[0-9a-f]+)?$`)

// RaceReports parses the race-detector logs named by GORACE's log_path.
func RaceReports() []RaceReport {
	g := os.Getenv("GORACE")
	lp := ""
	for _, f := range strings.Fields(g) {
		if strings.HasPrefix(f, "log_path=") {
			lp = strings.TrimPrefix(f, "log_path=")
		}
	}
	if lp == "" {
		return nil
	}
	files, _ := filepath.Glob(lp + ".*")
	var out []RaceReport
	for _, f := range files {
		b, err := os.ReadFile(f)
		if err != nil {
			continue
		}
		for _, blk := range strings.Split(string(b), "==================") {
			if !strings.Contains(blk, "WARNING: DATA RACE") {
				continue
			}
			secs := strings.Split(strings.TrimSpace(blk), "\n\n")
			var acc []string
			var files []string
			for _, s := range secs {
				if len(acc) == 2 {
					break
				}
				t := strings.TrimSpace(s)
				if strings.HasPrefix(t, "WARNING: DATA RACE") {
					t = strings.TrimSpace(strings.TrimPrefix(t, "WARNING: DATA RACE"))
				}
				if !(strings.HasPrefix(t, "Read at") || strings.HasPrefix(t, "Write at") || strings.HasPrefix(t, "Previous") || strings.HasPrefix(t, "Atomic")) {
					continue
				}
				lines := strings.Split(t, "\n")
				fr, fl := "", ""
				for i := 1; i+1 < len(lines); i += 2 {
					fn := strings.TrimSpace(lines[i])
					loc := strings.TrimSpace(lines[i+1])
					if strings.Contains(fn, "github.com/codelaboratoryltd/bng/") {
						loc = lineNo.ReplaceAllString(loc, "")
						if j := strings.Index(loc, "/pkg/"); j >= 0 {
							loc = loc[j+1:]
						}
						fn = strings.TrimPrefix(fn, "github.com/codelaboratoryltd/bng/")
						fr, fl = loc+":"+fn, loc
						break
					}
				}
				acc = append(acc, fr)
				files = append(files, fl)
			}
			if len(acc) == 2 {
				out = append(out, RaceReport{A: acc[0], B: acc[1], FileA: files[0], FileB: files[1], Raw: strings.TrimSpace(blk)})
			}
		}
	}
	return out
}

// JudgeRaces applies the race policy: a report is a violation of the property only
// if both innermost bng frames lie in the anchored files; everything else is an observation.
func (r *Run) JudgeRaces(anchored []string) {
	reps := RaceReports()
	in := func(f string) bool {
		for _, a := range anchored {
			if f == a {
				return true
			}
		}
		return false
	}
	r.Count("race_reports_total", len(reps))
	seen := map[string]bool{}
	var others []string
	for _, rp := range reps {
		a, b := rp.A, rp.B
		if a > b {
			a, b = b, a
		}
		k := a + " <-> " + b
		if seen[k] {
			continue
		}
		seen[k] = true
		if rp.FileA != "" && rp.FileB != "" && in(rp.FileA) && in(rp.FileB) {
			raw := rp.Raw
			if len(raw) > 4000 {
				raw = raw[:4000]
			}
			r.Violation("race-detector", "data-race", k, "data race between "+k, raw)
		} else {
			others = append(others, k)
		}
	}
	r.Extra("race_reports_distinct", len(seen))
	if len(others) > 0 {
		r.Extra("races_outside_anchors_observed", others)
	}
}
