package vk

import _ "github.com/anishathalye/porcupine"
