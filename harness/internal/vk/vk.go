// Package vk is the shared kit of the runtime-monitoring harness: seeded PRNG
// streams, coverage counters, violation collection, known-finding matching,
// replay files and the evidence writer.
package vk

import (
	"encoding/json"
	"fmt"
	"hash/fnv"
	"math/rand/v2"
	"os"
	"path/filepath"
	"sort"
	"strconv"
	"strings"
	"sync"
	"time"
)

// VerifDir is where MANIFEST.json, known_findings.jsonl, evidence/ and replays/ live.
func VerifDir() string {
	if d := os.Getenv("VERIF_DIR"); d != "" {
		return d
	}
	return "/verif"
}

// Finding is one entry of known_findings.jsonl.
type Finding struct {
	Status       string `json:"status"` // "known" or "fixed"
	Property     string `json:"property"`
	Component    string `json:"component"`
	Rule         string `json:"rule"`
	WitnessClass string `json:"witness_class"`
	Description  string `json:"description"`
	Commit       string `json:"commit,omitempty"`
}

// Violation is one confirmed witness.
type Violation struct {
	Component string `json:"component"`
	Rule      string `json:"rule"`
	Class     string `json:"witness_class"`
	Desc      string `json:"description"`
	Witness   any    `json:"witness"`
	Count     int    `json:"count"`
}

func (v *Violation) key() string { return v.Component + "|" + v.Rule + "|" + v.Class }

// Run collects what one check execution observed.
type Run struct {
	Prop  string
	Level string
	Tier  string
	Seed  int64

	mu        sync.Mutex
	start     time.Time
	evals     int64
	counters  map[string]int64
	distinct  map[string]map[uint64]struct{}
	nontriv   map[uint64]struct{}
	samples   []any
	maxSample int
	viol      map[string]*Violation
	incon     []string
	rule      string
	extra     map[string]any
	assume    []string
	floors    map[string]int64
}

// Start reads VERIF_TIER / VERIF_SEED and returns a collector.
func Start(prop, level string) *Run {
	tier := os.Getenv("VERIF_TIER")
	if tier != "thorough" {
		tier = "quick"
	}
	seed := int64(1)
	if s := os.Getenv("VERIF_SEED"); s != "" {
		if n, err := strconv.ParseInt(s, 10, 64); err == nil {
			seed = n
		}
	}
	return &Run{
		Prop: prop, Level: level, Tier: tier, Seed: seed,
		start:     time.Now(),
		counters:  map[string]int64{},
		distinct:  map[string]map[uint64]struct{}{},
		nontriv:   map[uint64]struct{}{},
		maxSample: 5,
		viol:      map[string]*Violation{},
		extra:     map[string]any{},
		floors:    map[string]int64{},
	}
}

// Thorough reports whether this is the thorough tier.
func (r *Run) Thorough() bool { return r.Tier == "thorough" }

// Pick returns q in quick tier and t in thorough tier.
func (r *Run) Pick(q, t int) int {
	if r.Thorough() {
		return t
	}
	return q
}

func h64(s string) uint64 {
	h := fnv.New64a()
	h.Write([]byte(s))
	return h.Sum64()
}

// Rand returns a deterministic PRNG stream for (seed, name).
func (r *Run) Rand(name string) *rand.Rand {
	return rand.New(rand.NewPCG(uint64(r.Seed), h64(r.Prop+"/"+name)))
}

// SubRand returns a deterministic PRNG stream for (seed, name, index).
func (r *Run) SubRand(name string, i int) *rand.Rand {
	return rand.New(rand.NewPCG(uint64(r.Seed)^(uint64(i)*0x9e3779b97f4a7c15), h64(r.Prop+"/"+name)))
}

// Eval counts one judged case/execution.
func (r *Run) Eval() { r.mu.Lock(); r.evals++; r.mu.Unlock() }

// Evals adds n judged cases.
func (r *Run) Evals(n int) { r.mu.Lock(); r.evals += int64(n); r.mu.Unlock() }

// Count adds n to a named observation counter.
func (r *Run) Count(key string, n int) { r.mu.Lock(); r.counters[key] += int64(n); r.mu.Unlock() }

// Distinct records key in a named set of distinct observations.
func (r *Run) Distinct(set, key string) {
	r.mu.Lock()
	m := r.distinct[set]
	if m == nil {
		m = map[uint64]struct{}{}
		r.distinct[set] = m
	}
	m[h64(key)] = struct{}{}
	r.mu.Unlock()
}

// DistinctCount returns the size of a named distinct set.
func (r *Run) DistinctCount(set string) int {
	r.mu.Lock()
	defer r.mu.Unlock()
	return len(r.distinct[set])
}

// Nontrivial records a distinct non-trivial case (by the check's stated rule).
func (r *Run) Nontrivial(key string) {
	r.mu.Lock()
	r.nontriv[h64(key)] = struct{}{}
	r.mu.Unlock()
}

// Sample stores up to five written-out cases.
func (r *Run) Sample(v any) {
	r.mu.Lock()
	if len(r.samples) < r.maxSample {
		r.samples = append(r.samples, v)
	}
	r.mu.Unlock()
}

// Rule sets the text describing generation and non-triviality.
func (r *Run) Rule(s string) { r.rule = s }

// Extra sets an extra coverage key.
func (r *Run) Extra(k string, v any) { r.mu.Lock(); r.extra[k] = v; r.mu.Unlock() }

// Assume records an assumption.
func (r *Run) Assume(s string) { r.mu.Lock(); r.assume = append(r.assume, s); r.mu.Unlock() }

// Floor demands that counter key reaches at least n, else the run is inconclusive (exit 2).
func (r *Run) Floor(key string, n int64) { r.floors[key] = n }

// Inconclusive records a case that could not be judged.
func (r *Run) Inconclusive(cas, reason string) {
	r.mu.Lock()
	r.incon = append(r.incon, cas+": "+reason)
	r.mu.Unlock()
	fmt.Printf("INCONCLUSIVE property=%s case=%s reason=%s\n", r.Prop, cas, reason)
}

// Violation records a witness. component = call site, rule = oracle clause,
// class = normalised witness class; the triple identifies a finding.
func (r *Run) Violation(component, rule, class, desc string, witness any) {
	r.mu.Lock()
	defer r.mu.Unlock()
	v := &Violation{Component: component, Rule: rule, Class: class, Desc: desc, Witness: witness}
	if old, ok := r.viol[v.key()]; ok {
		old.Count++
		return
	}
	v.Count = 1
	r.viol[v.key()] = v
}

// NViol returns the number of distinct violation triples so far.
func (r *Run) NViol() int { r.mu.Lock(); defer r.mu.Unlock(); return len(r.viol) }

func loadFindings() []Finding {
	var out []Finding
	b, err := os.ReadFile(filepath.Join(VerifDir(), "known_findings.jsonl"))
	if err != nil {
		return nil
	}
	for _, l := range strings.Split(string(b), "\n") {
		l = strings.TrimSpace(l)
		if l == "" || strings.HasPrefix(l, "#") {
			continue
		}
		var f Finding
		if json.Unmarshal([]byte(l), &f) == nil {
			out = append(out, f)
		}
	}
	return out
}

func sanitize(s string) string {
	var b strings.Builder
	for _, c := range s {
		switch {
		case c >= 'a' && c <= 'z', c >= 'A' && c <= 'Z', c >= '0' && c <= '9', c == '-', c == '_', c == '.':
			b.WriteRune(c)
		default:
			b.WriteByte('_')
		}
	}
	out := b.String()
	if len(out) > 120 {
		out = out[:120]
	}
	return out
}

// Finish writes evidence, prints KNOWN-FINDING / VIOLATION lines and returns
// the exit code: 0 held (or only listed findings), 1 unlisted violation,
// 2 below observation floor.
func (r *Run) Finish() int {
	r.mu.Lock()
	defer r.mu.Unlock()
	known := map[string]Finding{}
	for _, f := range loadFindings() {
		if f.Property == r.Prop && f.Status == "known" {
			known[f.Component+"|"+f.Rule+"|"+f.WitnessClass] = f
		}
	}
	keys := make([]string, 0, len(r.viol))
	for k := range r.viol {
		keys = append(keys, k)
	}
	sort.Strings(keys)
	exit := 0
	nUnlisted, nKnown := 0, 0
	seenKnown := map[string]bool{}
	var vsum []map[string]any
	for _, k := range keys {
		v := r.viol[k]
		if f, ok := known[k]; ok {
			nKnown++
			seenKnown[k] = true
			fmt.Printf("KNOWN-FINDING: property=%s component=%s rule=%s class=%s (%d witnesses) %s\n", r.Prop, v.Component, v.Rule, v.Class, v.Count, f.Description)
			vsum = append(vsum, map[string]any{"component": v.Component, "rule": v.Rule, "witness_class": v.Class, "count": v.Count, "listed": true})
			continue
		}
		nUnlisted++
		exit = 1
		dir := filepath.Join(VerifDir(), "replays", r.Prop)
		os.MkdirAll(dir, 0o755)
		path := filepath.Join(dir, sanitize(k)+".json")
		rep := map[string]any{
			"property": r.Prop, "seed": r.Seed, "tier": r.Tier,
			"component": v.Component, "rule": v.Rule, "witness_class": v.Class,
			"description": v.Desc, "witness": v.Witness, "witnesses_of_this_class": v.Count,
		}
		b, _ := json.MarshalIndent(rep, "", " ")
		os.WriteFile(path, b, 0o644)
		fmt.Printf("VIOLATION property=%s replay=%s\n", r.Prop, path)
		fmt.Printf("  detail: component=%s rule=%s class=%s: %s\n", v.Component, v.Rule, v.Class, v.Desc)
		vsum = append(vsum, map[string]any{"component": v.Component, "rule": v.Rule, "witness_class": v.Class, "count": v.Count, "listed": false, "replay": path})
	}
	kk := make([]string, 0, len(known))
	for k := range known {
		kk = append(kk, k)
	}
	sort.Strings(kk)
	for _, k := range kk {
		if !seenKnown[k] {
			fmt.Printf("NOTE: known finding not reproduced in this run: property=%s %s\n", r.Prop, k)
		}
	}

	cov := map[string]any{}
	for k, v := range r.extra {
		cov[k] = v
	}
	cov["evaluations"] = r.evals
	cov["distinct_nontrivial"] = len(r.nontriv)
	cov["rule"] = r.rule
	if len(r.samples) == 0 {
		cov["samples"] = []any{}
	} else {
		cov["samples"] = r.samples
	}
	obs := map[string]int64{}
	for k, v := range r.counters {
		obs[k] = v
	}
	cov["observed"] = obs
	dist := map[string]int{}
	for k, m := range r.distinct {
		dist[k] = len(m)
	}
	cov["distinct"] = dist
	cov["inconclusive_cases"] = len(r.incon)
	if len(r.incon) > 0 {
		n := len(r.incon)
		if n > 20 {
			n = 20
		}
		cov["inconclusive_reasons"] = r.incon[:n]
	}
	cov["violations_detail"] = vsum
	cov["known_findings_reproduced"] = nKnown
	for k, min := range r.floors {
		if r.counters[k] < min {
			fmt.Printf("INCONCLUSIVE property=%s case=floor reason=observed %s=%d below floor %d\n", r.Prop, k, r.counters[k], min)
			if exit == 0 {
				exit = 2
			}
		}
	}
	if (r.evals < 1 || len(r.nontriv) < 2) && exit == 0 {
		fmt.Printf("INCONCLUSIVE property=%s case=floor reason=evaluations=%d distinct_nontrivial=%d\n", r.Prop, r.evals, len(r.nontriv))
		exit = 2
	}
	ev := map[string]any{
		"property_id": r.Prop,
		"tier":        r.Tier,
		"seed":        r.Seed,
		"level":       r.Level,
		"coverage":    cov,
		"assumptions": r.assume,
		"wall_s":      time.Since(r.start).Seconds(),
		"violations":  nUnlisted,
	}
	if r.assume == nil {
		ev["assumptions"] = []string{}
	}
	b, _ := json.MarshalIndent(ev, "", " ")
	out := os.Getenv("VERIF_EVIDENCE")
	if out == "" {
		out = filepath.Join(VerifDir(), "evidence", r.Prop+".json")
	}
	os.MkdirAll(filepath.Dir(out), 0o755)
	if err := os.WriteFile(out, b, 0o644); err != nil {
		fmt.Printf("cannot write evidence: %v\n", err)
		if exit == 0 {
			exit = 2
		}
	}
	fmt.Printf("SUMMARY property=%s tier=%s seed=%d evaluations=%d distinct_nontrivial=%d violations=%d known=%d inconclusive=%d wall=%.1fs exit=%d\n",
		r.Prop, r.Tier, r.Seed, r.evals, len(r.nontriv), nUnlisted, nKnown, len(r.incon), time.Since(r.start).Seconds(), exit)
	return exit
}
