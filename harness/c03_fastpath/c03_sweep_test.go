package c03

import (
	"encoding/binary"
	"fmt"
	"net"
	"os"
	"testing"
	"testing/synctest"
	"time"

	"github.com/cilium/ebpf"
	"github.com/insomniacslk/dhcp/dhcpv4"
	"go.uber.org/zap"

	"github.com/codelaboratoryltd/bng/pkg/dhcp"
	bngebpf "github.com/codelaboratoryltd/bng/pkg/ebpf"

	"verif/harness/internal/cplane"
)

// TestReplyHeaderSweep: the header arithmetic of a transmitted reply (IPv4 header checksum, lengths) is
// judged for EVERY value of a 16-bit header field of the request that the reply keeps (IP identification),
// and for every TOS value, per pool configuration and reply shape: ones'-complement carries only go wrong
// for a handful of the 65536 values, which random probes do not reach.
func TestReplyHeaderSweep(t *testing.T) {
	k, err := cplane.LoadKernel("dhcp_fastpath")
	if err != nil {
		run.Violation("bpf/dhcp_fastpath.c", "program-loads", "verifier-or-load-error", err.Error(), nil)
		return
	}
	defer k.Close()
	nat, err := cplane.Start("dhcp_fastpath", os.Getenv("VERIF_BUILD")+"/C03.sweep.journal")
	if err != nil {
		t.Fatal(err)
	}
	defer nat.Close()
	pools := []poolCfg{
		{"10.20.0.0/16", "10.20.0.1", []string{"8.8.8.8", "1.1.1.1"}, time.Hour, net.IPv4(10, 20, 0, 1)},
		{"192.168.7.0/24", "192.168.7.254", []string{"9.9.9.9"}, 90 * time.Second, net.IPv4(192, 168, 7, 2)},
		{"172.16.4.8/29", "172.16.4.9", nil, 24 * time.Hour, net.IPv4(172, 16, 4, 9)},
		{"100.64.0.0/14", "100.64.0.1", []string{"4.3.2.1", "8.7.6.5"}, time.Hour, net.IPv4(100, 64, 0, 1)},
		{"10.9.8.0/30", "10.9.8.1", []string{"1.2.3.4"}, 7 * 24 * time.Hour, net.IPv4(203, 0, 113, 77)},
	}
	srvMAC := net.HardwareAddr{0x02, 0x00, 0x5e, 0x10, 0x20, 0x30}
	full := run.Pick(1, 20) // number of (pool, client, shape) combinations swept over all 65536 ids; the rest every 97th id
	combo := 0
	for pi, pc := range pools {
		synctest.Test(t, func(t *testing.T) {
			for _, m := range k.Coll.Maps {
				if m.Type() == ebpf.Hash {
					var keys [][]byte
					key := make([]byte, m.KeySize())
					val := make([]byte, m.ValueSize())
					it := m.Iterate()
					for it.Next(&key, &val) {
						keys = append(keys, append([]byte(nil), key...))
					}
					for _, kk := range keys {
						m.Delete(kk)
					}
				}
			}
			ld, _ := bngebpf.NewLoader("lo", zap.NewNop())
			ld.VerifSetMaps(k.Coll.Maps)
			pm := dhcp.NewPoolManager(ld, nil)
			dp, err := dhcp.NewPool(dhcp.PoolConfig{ID: uint32(1 + pi), Name: "p", Network: pc.network, Gateway: pc.gateway, DNSServers: pc.dns, LeaseTime: pc.lease})
			if err != nil {
				t.Fatal(err)
			}
			pm.AddPool(dp)
			srv, err := dhcp.NewServer(dhcp.ServerConfig{Interface: "lo", ServerIP: pc.serverIP}, ld, pm, zap.NewNop())
			if err != nil {
				t.Fatal(err)
			}
			ld.SetServerConfig(srvMAC, pc.serverIP, 2)
			conn := &capConn{}
			peer := &net.UDPAddr{IP: net.IPv4bcast, Port: 68}
			rng := run.SubRand("sweep", pi)
			clients := []*client{
				{mac: net.HardwareAddr{0x02, 0x51, byte(rng.IntN(256)), byte(rng.IntN(256)), byte(rng.IntN(256)), 1}},
				{mac: net.HardwareAddr{0x02, 0x52, byte(rng.IntN(256)), byte(rng.IntN(256)), byte(rng.IntN(256)), 2}, relay: net.IPv4(10, 250, byte(rng.IntN(256)), byte(1+rng.IntN(250))), cid: []byte(fmt.Sprintf("port-%d", rng.IntN(1000)))},
			}
			xid := uint32(0x5eed0000)
			for _, c := range clients {
				send := func(m *dhcpv4.DHCPv4) *dhcpv4.DHCPv4 {
					srv.VerifHandle(conn, peer, m)
					synctest.Wait()
					return conn.take()
				}
				xid++
				r := send(c.request(dhcpv4.MessageTypeDiscover, xid, nil, nil))
				if r == nil || r.MessageType() != dhcpv4.MessageTypeOffer {
					run.Count("sweep_client_without_offer", 1) // pool of one address: the second client gets none
					continue
				}
				xid++
				a := send(c.request(dhcpv4.MessageTypeRequest, xid, r.YourIPAddr, nil))
				if a == nil || a.MessageType() != dhcpv4.MessageTypeAck {
					run.Count("sweep_client_without_ack", 1)
					continue
				}
				c.bound, c.ref = a.YourIPAddr, a
			}
			nat.Reset()
			for name, m := range k.Coll.Maps {
				mi, ok := nat.Map(name)
				if !ok || mi.KeySize == 0 {
					continue
				}
				key := make([]byte, m.KeySize())
				val := make([]byte, m.ValueSize())
				it := m.Iterate()
				for it.Next(&key, &val) {
					nat.Write(name, key, val, 0)
				}
			}
			nat.Clock(1000 * 1_000_000_000)
			shapes := []probeShape{
				{name: "discover", msg: 1, pad: 64},
				{name: "request", msg: 3, pad: 80},
				{name: "discover-relayed", msg: 1, pad: 100, relayed: true},
				{name: "request-qinq", msg: 3, pad: 70, vlans: [][2]uint16{{0x88a8, 200}, {0x8100, 300}}},
			}
			for ci, c := range clients {
				for _, ps := range shapes {
					if ps.relayed != (c.relay != nil) || c.bound == nil {
						continue
					}
					step := 97
					if combo < full {
						step = 1
					}
					combo++
					base := buildProbe(c, ps, xid)
					l2 := 14 + 4*len(ps.vlans)
					tx, bad := 0, 0
					for id := 0; id < 65536; id += step {
						frame := append([]byte(nil), base...)
						binary.BigEndian.PutUint16(frame[l2+4:], uint16(id))
						frame[l2+1] = byte(id >> 3) // TOS varies along
						frame[l2+10], frame[l2+11] = 0, 0
						binary.BigEndian.PutUint16(frame[l2+10:], cplane.IPChecksum(frame[l2:l2+20]))
						res, err := nat.Run("dhcp_fastpath_prog", frame, cplane.RunOpt{IfIndex: 2})
						if err != nil {
							run.Violation("bpf/dhcp_fastpath.c", "memory-safety", "sanitizer-or-guard-fault", err.Error(), map[string]any{"frame": fmt.Sprintf("%x", frame)})
							return
						}
						run.Eval()
						if res.Verdict != 3 {
							continue
						}
						tx++
						if _, why := parseReply(frame, res.Out, ps, c); why != "" {
							bad++
							if bad == 1 {
								run.Violation("bpf/dhcp_fastpath.c", "reply-well-formed", "header-arithmetic/"+shapeClass(ps), fmt.Sprintf("%s (request IP id %#04x, TOS %#02x)", why, id, frame[l2+1]),
									map[string]any{"pool": fmt.Sprintf("%+v", pc), "client": ci, "probe": ps.name, "ip_id": id, "frame": fmt.Sprintf("%x", frame), "out": fmt.Sprintf("%x", res.Out)})
							}
						}
					}
					run.Count("sweep_replies_judged", tx)
					run.Count("sweep_combinations", 1)
					if step == 1 {
						run.Count("sweep_full_65536", 1)
					}
					if tx > 0 {
						run.Nontrivial(fmt.Sprintf("sweep|%d|%d|%s", pi, ci, ps.name))
					}
				}
			}
		})
	}
	run.Floor("sweep_replies_judged", 65536)
}
