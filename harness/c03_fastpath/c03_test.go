package c03

import (
	"bytes"
	"encoding/binary"
	"fmt"
	"net"
	"os"
	"sync"
	"testing"
	"testing/synctest"
	"time"

	"github.com/cilium/ebpf"
	"github.com/insomniacslk/dhcp/dhcpv4"
	"go.uber.org/zap"

	"github.com/codelaboratoryltd/bng/pkg/dhcp"
	bngebpf "github.com/codelaboratoryltd/bng/pkg/ebpf"

	"verif/harness/internal/cplane"
	"verif/harness/internal/vk"
)

var run *vk.Run

func TestMain(m *testing.M) {
	run = vk.Start("C03", "exploration")
	run.Rule("cache states are produced by driving the real dhcp.Server (loader holding kernel maps of the loaded working-tree object) through seeded DISCOVER/REQUEST/RELEASE/DECLINE/expiry histories from direct and relayed (option 82) clients; server_config and ip_pools are written only by the code under test: dhcp.Server.Start (real listener and interface lookup, on an interface with and one without a hardware address in turn) and PoolManager.AddPool/RemovePool, including calls that are refused (id taken, id unknown) or concern other pools, before and between the client exchanges, with the userspace reference re-read after each such call; after every step the kernel maps are copied into the natively compiled XDP program and every client is probed with DISCOVER and REQUEST frames (untagged, 802.1Q, QinQ, option 53 at several offsets, relayed, broadcast flag, ciaddr, IHL 5-8, several lengths, kernel clock values); a transmitted reply is parsed by an independent parser and compared field by field with the userspace server's reply to the same client at that moment; a passed frame must be byte-identical; a client whose lease was released, declined or expired+cleaned must not be answered. non-trivial = distinct (pool configuration, client identity, probe shape) on which the fast path transmitted a reply")
	run.Assume("the fast path is not required to answer, only to answer correctly when it does and never for a client without a current binding; the reference values are those of the userspace OFFER/ACK for the same client in the same state; the in-kernel run cross-checks the native run on clock-independent probes")
	code := m.Run()
	ec := run.Finish()
	if code != 0 && ec == 0 {
		ec = 2
	}
	os.Exit(ec)
}

// capConn records what the server writes.
type capConn struct {
	mu   sync.Mutex
	sent [][]byte
}

func (c *capConn) ReadFrom(p []byte) (int, net.Addr, error) { select {} }
func (c *capConn) WriteTo(p []byte, a net.Addr) (int, error) {
	c.mu.Lock()
	c.sent = append(c.sent, append([]byte(nil), p...))
	c.mu.Unlock()
	return len(p), nil
}
func (c *capConn) Close() error                       { return nil }
func (c *capConn) LocalAddr() net.Addr                { return &net.UDPAddr{IP: net.IPv4zero, Port: 67} }
func (c *capConn) SetDeadline(t time.Time) error      { return nil }
func (c *capConn) SetReadDeadline(t time.Time) error  { return nil }
func (c *capConn) SetWriteDeadline(t time.Time) error { return nil }
func (c *capConn) take() *dhcpv4.DHCPv4 {
	c.mu.Lock()
	defer c.mu.Unlock()
	if len(c.sent) == 0 {
		return nil
	}
	b := c.sent[len(c.sent)-1]
	c.sent = nil
	m, err := dhcpv4.FromBytes(b)
	if err != nil {
		return nil
	}
	return m
}

type client struct {
	mac   net.HardwareAddr
	relay net.IP // giaddr or nil
	cid   []byte // option 82 circuit-id (unique per client) or nil
	// userspace view
	offered    net.IP
	bound      net.IP
	ref        *dhcpv4.DHCPv4 // last userspace OFFER/ACK carrying an address for this client
	ended      string         // "released", "declined", "expired" or ""
	hadCID     bool
	l2         bool             // option 82 is inserted by a layer-2 access node: giaddr stays 0
	oldCIDs    [][]byte         // circuit-ids this line had before it was moved to another port
	movedAck   int              // how many of oldCIDs userspace has seen replaced (an ACK of a request carrying the new one)
	unseenCIDs [][]byte         // previous circuit-ids whose replacement userspace never saw from the lease's own station
	swapped    int              // how often the hardware address behind this circuit-id was replaced
	leaseMAC   net.HardwareAddr // hardware address the userspace lease was last acknowledged to
	o82        int              // shape of option 82 in the next userspace message: 0 full, 1 remote-id only, 2 absent
}

func (c *client) request(mt dhcpv4.MessageType, xid uint32, req net.IP, ciaddr net.IP) *dhcpv4.DHCPv4 {
	mods := []dhcpv4.Modifier{dhcpv4.WithMessageType(mt), dhcpv4.WithHwAddr(c.mac)}
	if req != nil {
		mods = append(mods, dhcpv4.WithOption(dhcpv4.OptRequestedIPAddress(req)))
	}
	if ciaddr != nil {
		mods = append(mods, dhcpv4.WithClientIP(ciaddr))
	}
	if c.relay != nil {
		mods = append(mods, dhcpv4.WithGatewayIP(c.relay))
	}
	if c.relay != nil || c.l2 {
		// the relay does not always repeat the same option 82: full, remote-id only, or absent
		switch {
		case c.cid != nil && c.o82 == 0:
			mods = append(mods, dhcpv4.WithOption(dhcpv4.OptRelayAgentInfo(dhcpv4.OptGeneric(dhcpv4.GenericOptionCode(1), c.cid), dhcpv4.OptGeneric(dhcpv4.GenericOptionCode(2), []byte("relay-1")))))
		case c.cid != nil && c.o82 == 1:
			mods = append(mods, dhcpv4.WithOption(dhcpv4.OptRelayAgentInfo(dhcpv4.OptGeneric(dhcpv4.GenericOptionCode(2), []byte("relay-1")))))
		}
	}
	m, _ := dhcpv4.New(mods...)
	m.TransactionID = dhcpv4.TransactionID{byte(xid >> 24), byte(xid >> 16), byte(xid >> 8), byte(xid)}
	return m
}

type poolCfg struct {
	network, gateway string
	dns              []string
	lease            time.Duration
	serverIP         net.IP
}

type probeShape struct {
	name      string
	msg       byte // 1 discover, 3 request
	vlans     [][2]uint16
	pre       []byte // option bytes before option 53
	mid       []byte // option bytes between option 53 and option 82 (moves option 82 to another inspected offset)
	pad       int
	bcastFlag bool
	ciaddr    bool
	ihl       int
	clock     uint64
	relayed   bool
}

func buildProbe(c *client, ps probeShape, xid uint32) []byte {
	b := make([]byte, 240)
	b[0], b[1], b[2] = 1, 1, byte(len(c.mac))
	binary.BigEndian.PutUint32(b[4:], xid)
	if ps.bcastFlag {
		b[10] = 0x80
	}
	if ps.ciaddr && c.bound != nil {
		copy(b[12:16], c.bound.To4())
	}
	copy(b[28:], c.mac)
	binary.BigEndian.PutUint32(b[236:], 0x63825363)
	o := append([]byte{}, ps.pre...)
	o = append(o, 53, 1, ps.msg)
	if ps.msg == 3 && c.bound != nil {
		o = append(o, 50, 4)
		o = append(o, c.bound.To4()...)
	}
	o = append(o, ps.mid...)
	src, dst := net.IPv4zero, net.IPv4bcast
	sport, dport := uint16(68), uint16(67)
	ethDst := net.HardwareAddr{0xff, 0xff, 0xff, 0xff, 0xff, 0xff}
	ethSrc := c.mac
	if ps.relayed && c.relay == nil && c.l2 && c.cid != nil {
		sub := append([]byte{1, byte(len(c.cid))}, c.cid...)
		sub = append(sub, 2, 7, 'r', 'e', 'l', 'a', 'y', '-', '1')
		o = append(o, 82, byte(len(sub)))
		o = append(o, sub...)
	}
	if ps.relayed && c.relay != nil {
		copy(b[24:28], c.relay.To4())
		if c.cid != nil {
			sub := append([]byte{1, byte(len(c.cid))}, c.cid...)
			sub = append(sub, 2, 7, 'r', 'e', 'l', 'a', 'y', '-', '1')
			o = append(o, 82, byte(len(sub)))
			o = append(o, sub...)
		}
		src, dst = c.relay, net.IPv4(10, 255, 255, 254)
		sport = 67
		ethDst = net.HardwareAddr{0x02, 0, 0, 0, 0, 0xfe}
		ethSrc = net.HardwareAddr{0x02, 0x99, 0, 0, 0, 1}
	}
	o = append(o, 255)
	for len(o) < ps.pad {
		o = append(o, 0)
	}
	ihl := ps.ihl
	if ihl < 5 {
		ihl = 5
	}
	return cplane.Eth(ethDst, ethSrc, 0x0800, ps.vlans, cplane.IPv4(src, dst, 17, ihl, cplane.UDP(sport, dport, append(b, o...))))
}

// reply is what the independent parser extracts from a transmitted frame.
type reply struct {
	msgType                        byte
	yiaddr, serverID, mask, router net.IP
	dns                            []net.IP
	lease                          uint32
	hasLease                       bool
}

// parseReply validates the Ethernet/IPv4/UDP/BOOTP structure; returns the first problem found.
func parseReply(in, out []byte, ps probeShape, c *client) (*reply, string) {
	l2 := 14 + 4*len(ps.vlans)
	if len(out) < l2+20+8+240 {
		return nil, fmt.Sprintf("reply of %d bytes is shorter than Ethernet+IPv4+UDP+BOOTP", len(out))
	}
	if !bytes.Equal(out[12:l2], in[12:l2]) {
		return nil, "VLAN tags / ethertype of the reply differ from the request"
	}
	ip := out[l2:]
	if ip[0]>>4 != 4 {
		return nil, "IP version is not 4"
	}
	ihl := int(ip[0]&0x0f) * 4
	if ihl < 20 || len(ip) < ihl+8 {
		return nil, fmt.Sprintf("IP header length %d invalid", ihl)
	}
	tot := int(binary.BigEndian.Uint16(ip[2:]))
	if tot != len(out)-l2 {
		return nil, fmt.Sprintf("IP total length %d but the frame carries %d bytes after L2", tot, len(out)-l2)
	}
	if cplane.IPChecksum(ip[:ihl]) != 0 {
		return nil, fmt.Sprintf("IP header checksum does not verify over the %d-byte header", ihl)
	}
	if ip[9] != 17 {
		return nil, "IP protocol is not UDP"
	}
	udp := ip[ihl:]
	ulen := int(binary.BigEndian.Uint16(udp[4:]))
	if ulen != tot-ihl {
		return nil, fmt.Sprintf("UDP length %d inconsistent with IP total length %d and header length %d", ulen, tot, ihl)
	}
	if binary.BigEndian.Uint16(udp[0:]) != 67 {
		return nil, "UDP source port is not 67"
	}
	wantDport := uint16(68)
	if ps.relayed && c.relay != nil {
		wantDport = 67
	}
	if binary.BigEndian.Uint16(udp[2:]) != wantDport {
		return nil, fmt.Sprintf("UDP destination port %d, want %d", binary.BigEndian.Uint16(udp[2:]), wantDport)
	}
	bp := udp[8:]
	if len(bp) < 240 {
		return nil, "BOOTP fixed part truncated"
	}
	inBP := in[l2+int(in[l2]&0x0f)*4+8:]
	if bp[0] != 2 {
		return nil, fmt.Sprintf("BOOTP op %d is not BOOTREPLY", bp[0])
	}
	if !bytes.Equal(bp[4:8], inBP[4:8]) {
		return nil, "transaction id not echoed"
	}
	if !bytes.Equal(bp[28:44], inBP[28:44]) {
		return nil, "client hardware address not echoed"
	}
	if binary.BigEndian.Uint32(bp[236:]) != 0x63825363 {
		return nil, "magic cookie missing"
	}
	r := &reply{yiaddr: net.IP(append([]byte(nil), bp[16:20]...))}
	o := bp[240:]
	i := 0
	ended := false
	for i < len(o) {
		code := o[i]
		if code == 0 {
			i++
			continue
		}
		if code == 255 {
			ended = true
			break
		}
		if i+1 >= len(o) {
			return nil, "option header truncated"
		}
		n := int(o[i+1])
		if i+2+n > len(o) {
			return nil, fmt.Sprintf("option %d overruns the frame", code)
		}
		v := o[i+2 : i+2+n]
		switch code {
		case 53:
			if n == 1 {
				r.msgType = v[0]
			}
		case 54:
			r.serverID = net.IP(append([]byte(nil), v...))
		case 1:
			r.mask = net.IP(append([]byte(nil), v...))
		case 3:
			r.router = net.IP(append([]byte(nil), v...))
		case 6:
			for k := 0; k+4 <= n; k += 4 {
				r.dns = append(r.dns, net.IP(append([]byte(nil), v[k:k+4]...)))
			}
		case 51:
			if n == 4 {
				r.lease = binary.BigEndian.Uint32(v)
				r.hasLease = true
			}
		}
		i += 2 + n
	}
	if !ended {
		return nil, "options are not terminated by END inside the frame"
	}
	return r, ""
}

func ipEq(a, b net.IP) bool { return (a == nil && b == nil) || a.Equal(b) }

func TestFastPathAgreesWithUserspace(t *testing.T) {
	k, err := cplane.LoadKernel("dhcp_fastpath")
	if err != nil {
		run.Violation("bpf/dhcp_fastpath.c", "program-loads", "verifier-or-load-error", err.Error(), nil)
		return
	}
	defer k.Close()
	nat, err := cplane.Start("dhcp_fastpath", os.Getenv("VERIF_BUILD")+"/C03.journal")
	if err != nil {
		t.Fatal(err)
	}
	defer nat.Close()
	histories := run.Pick(300, 6000)
	pools := []poolCfg{
		{"10.20.0.0/16", "10.20.0.1", []string{"8.8.8.8", "1.1.1.1"}, time.Hour, net.IPv4(10, 20, 0, 1)},
		{"192.168.7.0/24", "192.168.7.254", []string{"9.9.9.9"}, 90 * time.Second, net.IPv4(192, 168, 7, 2)},
		{"172.16.4.8/29", "172.16.4.9", nil, 24 * time.Hour, net.IPv4(172, 16, 4, 9)},
		{"100.64.0.0/14", "100.64.0.1", []string{"4.3.2.1", "8.7.6.5"}, time.Second, net.IPv4(100, 64, 0, 1)},
		{"10.9.8.0/30", "10.9.8.1", []string{"1.2.3.4"}, 7 * 24 * time.Hour, net.IPv4(203, 0, 113, 77)},
	}
	ifaces, err := pickInterfaces()
	if err != nil {
		run.Inconclusive("interfaces", err.Error())
		return
	}
	// scripted matrix first: (renewal option-82 shape) x (how the lease ends) x (pool), relayed client with circuit-id
	type forced struct {
		op  int // value of x below
		o82 int
	}
	var scripts [][]forced
	for o82 := 0; o82 < 3; o82++ {
		for _, end := range []int{7, 8, 11} { // RELEASE, DECLINE, expiry+cleanup
			sc := []forced{{0, 0}, {3, 0}, {3, o82}}
			if end == 11 {
				sc = append(sc, forced{9, 0})
			}
			sc = append(sc, forced{end, 0}, forced{0, 0})
			scripts = append(scripts, sc)
		}
	}
	// the line is moved to another port (op 21: later requests carry another circuit-id), for a relayed client and for
	// one whose option 82 is inserted by a layer-2 access node (op 22: no giaddr); then the lease ends
	for _, l2 := range []bool{false, true} {
		for _, end := range []int{7, 11} {
			var sc []forced
			if l2 {
				sc = append(sc, forced{22, 0})
			}
			sc = append(sc, forced{0, 0}, forced{3, 0}, forced{21, 0}, forced{3, 0}, forced{3, 0})
			if end == 11 {
				sc = append(sc, forced{9, 0})
			}
			sc = append(sc, forced{end, 0}, forced{0, 0})
			scripts = append(scripts, sc)
		}
	}
	// the CPE behind the line is replaced (op 20), the new station takes the lease over through the circuit-id
	// index, and then the lease ends by each path
	for _, end := range []int{7, 8, 11} {
		sc := []forced{{0, 0}, {3, 0}, {20, 0}, {0, 0}, {3, 0}}
		if end == 11 {
			sc = append(sc, forced{9, 0})
		}
		sc = append(sc, forced{end, 0}, forced{0, 0})
		scripts = append(scripts, sc)
	}
	// the scripted matrix runs three times: 6-, 7- and 16-octet client hardware addresses
	total := histories + 3*len(scripts)*len(pools)
	for h := 0; h < total; h++ {
		if only := os.Getenv("C03_ONLY_HISTORY"); only != "" && only != fmt.Sprint(h) {
			continue // debugging aid: re-run one history of the tier
		}
		rng := run.SubRand("hist", h)
		pc := pools[h%len(pools)]
		var script []forced
		extraHW := 0
		if h >= histories {
			si := (h - histories) / len(pools)
			script = scripts[si%len(scripts)]
			extraHW = []int{0, 1, 10}[si/len(scripts)]
		}
		synctest.Test(t, func(t *testing.T) {
			// fresh control plane over cleared kernel maps
			for _, m := range k.Coll.Maps {
				if m.Type() == ebpf.Hash {
					var keys [][]byte
					key := make([]byte, m.KeySize())
					val := make([]byte, m.ValueSize())
					it := m.Iterate()
					for it.Next(&key, &val) {
						keys = append(keys, append([]byte(nil), key...))
					}
					for _, kk := range keys {
						m.Delete(kk)
					}
				}
			}
			zeroServerConfig(k) // a fresh loader starts from a zeroed server_config (array map: not covered by the loop above)
			ifc := ifaces[h%2]  // the server runs on an interface with / without a hardware address in turn
			ld, _ := bngebpf.NewLoader(ifc.name, zap.NewNop())
			ld.VerifSetMaps(k.Coll.Maps)
			pm := dhcp.NewPoolManager(ld, nil)
			dp, err := dhcp.NewPool(dhcp.PoolConfig{ID: uint32(1 + h%3), Name: "p", Network: pc.network, Gateway: pc.gateway, DNSServers: pc.dns, LeaseTime: pc.lease})
			if err != nil {
				t.Fatal(err)
			}
			pm.AddPool(dp)
			srv, err := dhcp.NewServer(dhcp.ServerConfig{Interface: ifc.name, ServerIP: pc.serverIP}, ld, pm, zap.NewNop())
			if err != nil {
				t.Fatal(err)
			}
			// the fast path is configured by dhcp.Server.Start itself (listener, interface lookup, SetServerConfig with
			// the interface's own hardware address), not by the harness
			if err := startConfigured(srv); err != nil {
				run.Inconclusive("server-start", fmt.Sprintf("dhcp.Server.Start on %s: %v", ifc.name, err))
				return
			}
			synctest.Wait()
			run.Count("histories_server_started_on_"+ifc.kind, 1)
			conn := &capConn{}
			peer := &net.UDPAddr{IP: net.IPv4bcast, Port: 68}
			nClients := 2 + rng.IntN(3)
			clients := make([]*client, nClients)
			for i := range clients {
				c := &client{mac: net.HardwareAddr{0x02, byte(h), byte(rng.IntN(256)), byte(rng.IntN(256)), byte(rng.IntN(256)), byte(i + 1)}}
				// hardware addresses longer than 6 octets (hlen 7..16) are valid BOOTP; the cache keys on the first six
				nx := extraHW
				if script == nil && rng.IntN(4) == 0 {
					nx = []int{1, 2, 10}[rng.IntN(3)]
				}
				for ; nx > 0; nx-- {
					c.mac = append(c.mac, byte(rng.IntN(256)))
				}
				run.Count(fmt.Sprintf("clients_hlen_%d", len(c.mac)), 1)
				if script == nil && rng.IntN(6) == 0 {
					// option 82 inserted by a layer-2 access node (no relay: giaddr 0)
					c.l2 = true
					n := []int{1, 5, 12, 31, 32}[rng.IntN(5)]
					c.cid = make([]byte, n)
					for j := range c.cid {
						c.cid[j] = byte('a' + rng.IntN(26))
					}
					c.cid[0] = byte('K' + i)
					run.Count("clients_option82_without_relay", 1)
				} else if rng.IntN(2) == 0 || script != nil {
					c.relay = net.IPv4(10, 250, 0, byte(1+i))
					if rng.IntN(4) != 0 || script != nil {
						n := []int{1, 5, 12, 31, 32, 33, 48}[rng.IntN(7)] // 33, 48: longer than the 32-byte key (cached by MAC only)
						c.cid = make([]byte, n)
						for j := range c.cid {
							c.cid[j] = byte('a' + rng.IntN(26))
						}
						c.cid[0] = byte('A' + i) // unique per client
					}
				}
				clients[i] = c
			}
			var trace []string
			xid := uint32(h) << 16
			send := func(c *client, m *dhcpv4.DHCPv4) *dhcpv4.DHCPv4 {
				if os.Getenv("C03_ONLY_HISTORY") != "" {
					fmt.Printf("DEBUG send %s type=%v giaddr=%v opt82=%q\n", m.ClientHWAddr, m.MessageType(), m.GatewayIPAddr, m.Options.Get(dhcpv4.OptionRelayAgentInformation))
				}
				srv.VerifHandle(conn, peer, m)
				synctest.Wait()
				return conn.take()
			}
			steps := 4 + rng.IntN(run.Pick(10, 30))
			if script != nil {
				steps = len(script)
			}
			for s := 0; s < steps; s++ {
				c := clients[rng.IntN(nClients)]
				xid++
				if script != nil {
					c = clients[0]
				}
				if (script == nil && c.relay != nil && c.cid != nil && c.bound != nil && rng.IntN(8) == 0) || (script != nil && script[s].op == 20) {
					// the CPE behind this access line is replaced: same relay and circuit-id, new hardware address.
					// The binding belongs to the line (userspace finds the lease by circuit-id and keeps the address).
					c.mac = net.HardwareAddr{0x02, byte(h), byte(rng.IntN(256)), byte(rng.IntN(256)), byte(0x80 | s), c.mac[5]}
					if c.movedAck < len(c.oldCIDs) {
						// the line was moved but the station that holds the lease never showed userspace the new
						// circuit-id (its renewals since carried none, so the server rightly kept the previous one on the
						// lease): the new CPE is a new session under the new circuit-id and the previous circuit-id still
						// belongs to the old station's unexpired lease - it is not "abandoned", nothing is demanded for it
						c.unseenCIDs = append(c.unseenCIDs, c.oldCIDs[c.movedAck:]...)
						c.oldCIDs = c.oldCIDs[:c.movedAck]
						run.Count("port_moves_never_shown_to_userspace_before_cpe_swap(not judged)", 1)
					}
					c.swapped++
					run.Count("cpe_swaps", 1)
					trace = append(trace, fmt.Sprintf("CPE replaced: circuit-id %q now has hardware address %s", c.cid, c.mac))
					if script != nil {
						continue
					}
				}
				if script != nil && script[s].op == 22 {
					c.l2, c.relay = true, nil
					continue
				}
				if (script == nil && c.cid != nil && c.bound != nil && rng.IntN(10) == 0) || (script != nil && script[s].op == 21 && c.cid != nil) {
					// the line is moved to another port: from now on its requests carry another circuit-id
					c.oldCIDs = append(c.oldCIDs, c.cid)
					nc := append([]byte(nil), c.cid...)
					if len(nc) < 30 {
						nc = append(nc, byte('0'+len(c.oldCIDs)%10))
					} else {
						nc[len(nc)-1] = byte('0' + len(c.oldCIDs)%10) // same length, another port number
					}
					c.cid = nc
					run.Count("port_moves", 1)
					trace = append(trace, fmt.Sprintf("%s moved to another port: circuit-id is now %q", c.mac, c.cid))
					if script != nil {
						continue
					}
				}
				c.o82 = 0
				if c.bound != nil && rng.IntN(3) == 0 && (c.leaseMAC == nil || c.leaseMAC.String() == c.mac.String()) {
					c.o82 = 1 + rng.IntN(2) // only renewals vary: the first exchange (also of a replaced CPE) always carries the circuit-id
				}
				x := rng.IntN(12)
				if script != nil {
					c = clients[0]
					x, c.o82 = script[s].op, script[s].o82
				}
				switch {
				case x < 3:
					if r := send(c, c.request(dhcpv4.MessageTypeDiscover, xid, nil, nil)); r != nil && r.MessageType() == dhcpv4.MessageTypeOffer {
						c.offered = r.YourIPAddr
						if c.bound != nil {
							c.ref = r
						}
						trace = append(trace, fmt.Sprintf("%s DISCOVER -> OFFER %v", c.mac, r.YourIPAddr))
					} else {
						trace = append(trace, fmt.Sprintf("%s DISCOVER -> no offer", c.mac))
					}
				case x < 7:
					want := c.offered
					if c.bound != nil {
						want = c.bound
					}
					if want == nil {
						continue
					}
					r := send(c, c.request(dhcpv4.MessageTypeRequest, xid, want, nil))
					if r != nil && r.MessageType() == dhcpv4.MessageTypeAck {
						c.bound, c.ref, c.ended = r.YourIPAddr, r, ""
						c.leaseMAC = append(net.HardwareAddr(nil), c.mac...)
						if c.o82 == 0 {
							c.movedAck = len(c.oldCIDs)
						}
						c.hadCID = c.hadCID || c.cid != nil
						trace = append(trace, fmt.Sprintf("%s REQUEST %v -> ACK", c.mac, want))
					} else {
						trace = append(trace, fmt.Sprintf("%s REQUEST %v -> %v", c.mac, want, r))
					}
				case x < 8:
					if c.bound == nil {
						continue
					}
					send(c, c.request(dhcpv4.MessageTypeRelease, xid, nil, c.bound))
					if c.leaseMAC != nil && c.leaseMAC.String() != c.mac.String() {
						// the replaced CPE has no lease of its own yet: its RELEASE ends nothing
						run.Count("release_by_station_without_lease", 1)
						trace = append(trace, fmt.Sprintf("%s RELEASE (station has no lease of its own; the line's lease stays)", c.mac))
						break
					}
					c.bound, c.offered, c.ref, c.ended = nil, nil, nil, "released"
					trace = append(trace, fmt.Sprintf("%s RELEASE", c.mac))
				case x < 9:
					if c.bound == nil {
						continue
					}
					send(c, c.request(dhcpv4.MessageTypeDecline, xid, c.bound, nil))
					if c.leaseMAC != nil && c.leaseMAC.String() != c.mac.String() {
						run.Count("decline_by_station_without_lease", 1)
						trace = append(trace, fmt.Sprintf("%s DECLINE (station has no lease of its own; the line's lease stays)", c.mac))
						break
					}
					c.bound, c.offered, c.ref, c.ended = nil, nil, nil, "declined"
					trace = append(trace, fmt.Sprintf("%s DECLINE", c.mac))
				case x < 10:
					d := []time.Duration{time.Second, pc.lease / 2, pc.lease + time.Nanosecond, 61 * time.Second}[rng.IntN(4)]
					if script != nil {
						d = pc.lease + time.Nanosecond
					}
					time.Sleep(d)
					synctest.Wait()
					trace = append(trace, fmt.Sprintf("advance %v", d))
					continue
				default:
					// expiry tick as the server's own cleanup goroutine performs every minute
					srv.VerifCleanupExpired()
					now := time.Now().UnixNano()
					for _, cc := range clients {
						if cc.bound != nil {
							lm := cc.mac
							if cc.leaseMAC != nil {
								lm = cc.leaseMAC // the lease is kept under the hardware address it was acknowledged to
							}
							if _, exp, ok := srv.VerifLeaseIP(lm); !ok || exp < now {
								cc.bound, cc.offered, cc.ref, cc.ended = nil, nil, nil, "expired"
							}
						}
					}
					trace = append(trace, "cleanup-tick")
				}
				if os.Getenv("C03_ONLY_HISTORY") != "" {
					if m := k.Coll.Maps["circuit_id_subscribers"]; m != nil {
						kb := make([]byte, m.KeySize())
						vb := make([]byte, m.ValueSize())
						var ks []string
						for it := m.Iterate(); it.Next(&kb, &vb); {
							ks = append(ks, string(bytes.TrimRight(kb, "\x00")))
						}
						fmt.Printf("DEBUG after %q: circuit_id_subscribers=%q\n", trace[len(trace)-1:], ks)
					}
				}
				// copy kernel maps into the native program and probe every client
				nat.Reset()
				for name, m := range k.Coll.Maps {
					mi, ok := nat.Map(name)
					if !ok || mi.KeySize == 0 {
						continue
					}
					key := make([]byte, m.KeySize())
					val := make([]byte, m.ValueSize())
					it := m.Iterate()
					for it.Next(&key, &val) {
						nat.Write(name, key, val, 0)
					}
				}
				for ci, c := range clients {
					// a station that is NOT the bound client, behind the same relay, whose circuit-id is a
					// near miss of the bound client's (longer with the same first bytes, shorter, last byte
					// different), with Option 82 at each offset the program inspects: never answered from the cache
					if (c.relay != nil || c.l2) && c.cid != nil && c.bound != nil && s%2 == 0 {
						variants := [][]byte{}
						nearMiss := 0
						for _, extra := range []int{1, 2, 12} {
							v := append([]byte(nil), c.cid...)
							for k := 0; k < extra; k++ {
								v = append(v, byte('0'+rng.IntN(10)))
							}
							variants = append(variants, v)
						}
						if len(c.cid) > 1 {
							variants = append(variants, append([]byte(nil), c.cid[:len(c.cid)-1]...))
							v := append([]byte(nil), c.cid...)
							v[len(v)-1] ^= 0x20
							variants = append(variants, v)
						}
						// a near miss that happens to be a circuit-id this very line had before is not a stranger's
						kept := variants[:0]
						for _, v := range variants {
							isOld := false
							for _, oc := range c.oldCIDs {
								isOld = isOld || bytes.Equal(oc, v)
							}
							for _, oc := range c.unseenCIDs {
								isOld = isOld || bytes.Equal(oc, v)
							}
							if !isOld {
								kept = append(kept, v)
							}
						}
						variants = kept
						nearMiss = len(variants)
						// the circuit-ids this line had before it was moved (userspace has acknowledged the new one)
						for _, oc := range c.oldCIDs[:c.movedAck] {
							variants = append(variants, oc)
						}
						for vi, v := range variants {
							fc := &client{mac: net.HardwareAddr{0x06, 0xfe, byte(h), byte(s), byte(ci), byte(vi)}, relay: c.relay, l2: c.l2, cid: v}
							pos := 3
							var mid []byte
							if (vi+s/2)%2 == 1 {
								pos = 12 + rng.IntN(8)
								mid = append([]byte{61, byte(pos - 5)}, make([]byte, pos-5)...)
								for j := 2; j < len(mid); j++ {
									mid[j] = byte(1 + rng.IntN(255))
								}
							}
							ps := probeShape{name: "foreign-near-miss-circuit-id", msg: 1, pad: 120, relayed: true, mid: mid}
							xid++
							frame := buildProbe(fc, ps, xid)
							nat.Clock(uint64(1000+s) * 1_000_000_000)
							res, err := nat.Run("dhcp_fastpath_prog", frame, cplane.RunOpt{IfIndex: 2})
							if err != nil {
								run.Violation("bpf/dhcp_fastpath.c", "memory-safety", "sanitizer-or-guard-fault", err.Error(), map[string]any{"probe": ps.name, "frame": fmt.Sprintf("%x", frame), "history": trace})
								return
							}
							run.Eval()
							run.Count("probes_"+ps.name, 1)
							run.Count(fmt.Sprintf("foreign_probe_opt82_offset_%d", pos), 1)
							if len(v) > 32 {
								run.Count("foreign_probe_circuit_id_longer_than_key", 1)
							}
							if res.Verdict == 3 && vi >= nearMiss {
								run.Count("old_circuit_id_probes", 1)
								run.Violation("dhcp.Server+bpf/dhcp_fastpath.c", "no-answer-without-binding", "moved/cached-by-previous-circuit-id", fmt.Sprintf("the fast path answered a station (%s) presenting circuit-id %q, which client %s had before it moved to %q (userspace has acknowledged the new one)", fc.mac, v, c.mac, c.cid),
									map[string]any{"history": trace, "frame": fmt.Sprintf("%x", frame), "out": fmt.Sprintf("%x", res.Out)})
							} else if vi >= nearMiss {
								run.Count("old_circuit_id_probes", 1)
							} else if res.Verdict == 3 {
								run.Violation("dhcp.Server+bpf/dhcp_fastpath.c", "no-answer-without-binding", "never-bound/near-miss-circuit-id", fmt.Sprintf("the fast path answered a station (%s, circuit-id %q, option 82 at offset %d) that has no binding: its circuit-id is a near miss of bound client %s's %q", fc.mac, v, pos, c.mac, c.cid),
									map[string]any{"history": trace, "frame": fmt.Sprintf("%x", frame), "out": fmt.Sprintf("%x", res.Out)})
							}
						}
					}
					shapes := []probeShape{
						{name: "discover", msg: 1, pad: 64},
						{name: "request", msg: 3, pad: 80},
					}
					extra := []probeShape{
						{name: "discover-dot1q", msg: 1, pad: 64, vlans: [][2]uint16{{0x8100, 100}}},
						{name: "request-qinq", msg: 3, pad: 70, vlans: [][2]uint16{{0x88a8, 200}, {0x8100, 300}}},
						{name: "discover-pre1", msg: 1, pad: 64, pre: []byte{0}},
						{name: "discover-pre6", msg: 1, pad: 72, pre: []byte{0, 0, 0, 0, 0, 0}},
						{name: "request-pre-hostname", msg: 3, pad: 90, pre: []byte{12, 2, 'h', 'i'}},
						{name: "discover-bcastflag", msg: 1, pad: 64, bcastFlag: true},
						{name: "request-ciaddr", msg: 3, pad: 64, ciaddr: true},
						{name: "discover-ihl6", msg: 1, pad: 64, ihl: 6},
						{name: "discover-ihl8", msg: 1, pad: 64, ihl: 8},
						{name: "discover-long", msg: 1, pad: 308},
						{name: "discover-short-options", msg: 1, pad: 20},
						{name: "discover-clock-huge", msg: 1, pad: 64, clock: 1 << 63},
						{name: "discover-relayed", msg: 1, pad: 100, relayed: true},
						{name: "request-relayed", msg: 3, pad: 100, relayed: true},
					}
					shapes = append(shapes, extra[rng.IntN(len(extra))], extra[rng.IntN(len(extra))], extra[(s+ci)%len(extra)])
					if c.relay != nil || c.l2 {
						// every key the client may be cached under is probed after every step
						shapes = append(shapes, extra[len(extra)-2])
					}
					for pi, ps := range shapes {
						xid++
						frame := buildProbe(c, ps, xid)
						clock := ps.clock
						if clock == 0 {
							clock = uint64(1000+s) * 1_000_000_000
						}
						nat.Clock(clock)
						res, err := nat.Run("dhcp_fastpath_prog", frame, cplane.RunOpt{Placement: (s + pi) % 2, IfIndex: 2})
						if err != nil {
							run.Violation("bpf/dhcp_fastpath.c", "memory-safety", "sanitizer-or-guard-fault", err.Error(), map[string]any{"probe": ps.name, "frame": fmt.Sprintf("%x", frame), "history": trace})
							return
						}
						run.Eval()
						run.Count("probes_"+ps.name, 1)
						wit := func() any {
							var hits []string
							for _, a := range res.Log {
								if a.Op == 'l' && a.Hit {
									hits = append(hits, fmt.Sprintf("%s[%x]", a.Map, a.Key))
								}
							}
							return map[string]any{"cache_hits": hits, "pool": fmt.Sprintf("%+v", pc), "client": c.mac.String(), "relay": fmt.Sprint(c.relay), "circuit_id": string(c.cid), "history": trace, "probe": ps.name, "frame": fmt.Sprintf("%x", frame), "verdict": res.Verdict, "out": fmt.Sprintf("%x", res.Out)}
						}
						switch res.Verdict {
						case 2: // XDP_PASS
							run.Count("verdict_pass", 1)
							if !bytes.Equal(res.Out, frame) {
								run.Violation("bpf/dhcp_fastpath.c", "pass-is-byte-identical", "modified-then-passed/"+ps.name, "the frame handed to userspace differs from the frame received", wit())
							}
						case 3: // XDP_TX
							run.Count("verdict_tx", 1)
							run.Nontrivial(fmt.Sprintf("%d|%s|%v|%v", h%len(pools), ps.name, c.relay != nil, c.cid != nil))
							if !judgeTx(c, ps, frame, res.Out, wit) {
								continue
							}
							run.Count("replies_compared_on_"+ifc.kind, 1)
							if !pc.serverIP.Equal(net.ParseIP(pc.gateway)) {
								run.Count("replies_compared_server_ip_not_gateway_on_"+ifc.kind, 1)
							}
							// in-kernel cross-check of the same probe (clock-independent unless the lease could expire)
							if ps.clock == 0 {
								kv, kout, kerr := k.Run("dhcp_fastpath_prog", frame)
								if kerr == nil {
									run.Count("kernel_cross_checks", 1)
									if int64(kv) != res.Verdict || !bytes.Equal(kout, res.Out) {
										run.Inconclusive("fidelity", fmt.Sprintf("kernel verdict %d / %d bytes vs native %d / %d bytes on probe %s", kv, len(kout), res.Verdict, len(res.Out), ps.name))
									}
								}
							}
						default:
							run.Count(fmt.Sprintf("verdict_%d", res.Verdict), 1)
						}
					}
				}
			}
			if h < 2 || h == histories {
				run.Sample(map[string]any{"pool": fmt.Sprintf("%+v", pc), "clients": nClients, "history": trace})
			}
		})
	}
	// the fast path configuration written by Server.Start was looked at on both kinds of interface, also where the
	// configured server address is not the pool's gateway (the only place a lost server_config shows)
	run.Floor("replies_compared_on_iface_with_hwaddr", 1000)
	run.Floor("replies_compared_on_iface_without_hwaddr", 1000)
	run.Floor("replies_compared_server_ip_not_gateway_on_iface_with_hwaddr", 200)
	run.Floor("replies_compared_server_ip_not_gateway_on_iface_without_hwaddr", 200)
}

func shapeClass(ps probeShape) string {
	switch {
	case len(ps.vlans) == 2:
		return "qinq"
	case len(ps.vlans) == 1:
		return "dot1q"
	case ps.ihl > 5:
		return "ip-options"
	case ps.relayed:
		return "relayed"
	}
	return "plain"
}
