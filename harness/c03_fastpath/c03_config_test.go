package c03

import (
	"context"
	"fmt"
	"net"
	"os"
	"sort"
	"strings"
	"testing"
	"testing/synctest"
	"time"

	"github.com/cilium/ebpf"
	"github.com/insomniacslk/dhcp/dhcpv4"
	"go.uber.org/zap"

	"github.com/codelaboratoryltd/bng/pkg/dhcp"
	bngebpf "github.com/codelaboratoryltd/bng/pkg/ebpf"

	"verif/harness/internal/cplane"
)

// How the fast path gets its configuration (server_config, ip_pools) is part of "every cache state produced by
// driving the userspace server": the harness never writes these maps itself. dhcp.Server.Start configures
// server_config from the interface the server runs on, PoolManager.AddPool / RemovePool maintain ip_pools - also
// when such a call is refused or has nothing to do. Whatever these calls did, a reply the fast path transmits
// afterwards has to carry what the userspace server sends to the same subscriber at that moment.

type ifaceChoice struct {
	name string
	kind string // "iface_with_hwaddr" / "iface_without_hwaddr"
}

// pickInterfaces returns one interface that has a 6-octet hardware address and one that has none (loopback, tun,
// ppp ...), lowest index first: index 0 = with, 1 = without.
func pickInterfaces() ([2]ifaceChoice, error) {
	var out [2]ifaceChoice
	ifs, err := net.Interfaces()
	if err != nil {
		return out, err
	}
	sort.Slice(ifs, func(i, j int) bool { return ifs[i].Index < ifs[j].Index })
	for _, i := range ifs {
		switch {
		case len(i.HardwareAddr) == 6 && out[0].name == "":
			out[0] = ifaceChoice{i.Name, "iface_with_hwaddr"}
		case len(i.HardwareAddr) == 0 && out[1].name == "":
			out[1] = ifaceChoice{i.Name, "iface_without_hwaddr"}
		}
	}
	if out[0].name == "" || out[1].name == "" {
		return out, fmt.Errorf("need one interface with and one without a hardware address, found %q / %q", out[0].name, out[1].name)
	}
	return out, nil
}

// startConfigured runs the real dhcp.Server.Start with a context that is already cancelled: Start creates its
// listener, looks the interface up, calls Loader.SetServerConfig exactly as in production, starts its goroutines
// and - the context being done - closes the listener and returns at once. No wall clock is involved and nothing of
// the server keeps running behind the history.
func startConfigured(srv *dhcp.Server) error {
	ctx, cancel := context.WithCancel(context.Background())
	cancel()
	return srv.Start(ctx)
}

func zeroServerConfig(k *cplane.Kernel) {
	if m := k.Coll.Maps["server_config"]; m != nil {
		m.Put(uint32(0), make([]byte, m.ValueSize()))
	}
}

// resetKernelMaps: what a freshly loaded object looks like.
func resetKernelMaps(k *cplane.Kernel) {
	for _, m := range k.Coll.Maps {
		if m.Type() == ebpf.Hash {
			var keys [][]byte
			key := make([]byte, m.KeySize())
			val := make([]byte, m.ValueSize())
			it := m.Iterate()
			for it.Next(&key, &val) {
				keys = append(keys, append([]byte(nil), key...))
			}
			for _, kk := range keys {
				m.Delete(kk)
			}
		}
	}
	zeroServerConfig(k)
}

func copyMapsToNative(k *cplane.Kernel, nat *cplane.Runner) {
	nat.Reset()
	for name, m := range k.Coll.Maps {
		mi, ok := nat.Map(name)
		if !ok || mi.KeySize == 0 {
			continue
		}
		key := make([]byte, m.KeySize())
		val := make([]byte, m.ValueSize())
		it := m.Iterate()
		for it.Next(&key, &val) {
			nat.Write(name, key, val, 0)
		}
	}
}

// judgeTx judges one transmitted reply: no answer without a binding, well-formedness, message type, and the
// carried values against the userspace reference of this client. Returns true when the values were compared.
func judgeTx(c *client, ps probeShape, frame, out []byte, wit func() any) bool {
	if c.bound == nil {
		why := c.ended
		if why == "" {
			why = "never-bound"
		}
		key := "mac"
		if ps.relayed && c.cid != nil {
			key = "mac-or-circuit-id"
		}
		run.Violation("dhcp.Server+bpf/dhcp_fastpath.c", "no-answer-without-binding", why+"/cached-by-"+key, fmt.Sprintf("the fast path answered %s for client %s whose lease was %s in userspace", ps.name, c.mac, why), wit())
		return false
	}
	rp, bad := parseReply(frame, out, ps, c)
	if bad != "" {
		cls := strings.Fields(bad)[0] + "-" + strings.Fields(bad)[1]
		run.Violation("bpf/dhcp_fastpath.c", "reply-well-formed", cls+"/"+shapeClass(ps), bad, wit())
		return false
	}
	wantType := byte(2)
	if ps.msg == 3 {
		wantType = 5
	}
	if rp.msgType != wantType {
		run.Violation("bpf/dhcp_fastpath.c", "reply-well-formed", "wrong-message-type", fmt.Sprintf("message type %d for request type %d", rp.msgType, ps.msg), wit())
	}
	ref := c.ref
	if ref == nil {
		run.Count("tx_without_reference", 1)
		return false
	}
	cmp := func(field string, got, want net.IP) {
		if !ipEq(got, want) {
			run.Violation("dhcp.Server+bpf/dhcp_fastpath.c", "same-values-as-userspace", field, fmt.Sprintf("fast path sends %s=%v, userspace sends %v to this client", field, got, want), wit())
		}
	}
	cmp("yiaddr", rp.yiaddr, ref.YourIPAddr.To4())
	cmp("server-identifier", rp.serverID, ref.ServerIdentifier().To4())
	cmp("subnet-mask", rp.mask, net.IP(ref.SubnetMask()))
	var rr net.IP
	if rs := ref.Router(); len(rs) > 0 {
		rr = rs[0].To4()
	}
	cmp("router", rp.router, rr)
	udns := ref.DNS()
	if len(udns) != len(rp.dns) {
		run.Violation("dhcp.Server+bpf/dhcp_fastpath.c", "same-values-as-userspace", "dns-count", fmt.Sprintf("fast path sends %d DNS servers %v, userspace %d %v", len(rp.dns), rp.dns, len(udns), udns), wit())
	} else {
		for i := range udns {
			cmp("dns", rp.dns[i], udns[i].To4())
		}
	}
	ul := uint32(ref.IPAddressLeaseTime(0) / time.Second)
	if !rp.hasLease || rp.lease != ul {
		run.Violation("dhcp.Server+bpf/dhcp_fastpath.c", "same-values-as-userspace", "lease-time", fmt.Sprintf("fast path lease %d (present=%v), userspace %d", rp.lease, rp.hasLease, ul), wit())
	}
	run.Count("replies_compared", 1)
	return true
}

// TestControlPlaneHistories interleaves client exchanges with control-plane calls on the pool manager of the
// running server - AddPool of further pools, AddPool that is refused (the id is taken; the pool offered carries
// other parameters), RemovePool of a secondary pool, RemovePool that is refused (unknown id) - on servers started
// on interfaces with and without a hardware address, before or after the first pool is registered. After every
// call and every exchange each client is probed; the reference of a bound client is re-read from the userspace
// server (a DISCOVER, answered with the client's own address) after every control-plane call, so the comparison is
// with what userspace sends at that moment, whether or not the call changed anything there.
func TestControlPlaneHistories(t *testing.T) {
	k, err := cplane.LoadKernel("dhcp_fastpath")
	if err != nil {
		run.Violation("bpf/dhcp_fastpath.c", "program-loads", "verifier-or-load-error", err.Error(), nil)
		return
	}
	defer k.Close()
	nat, err := cplane.Start("dhcp_fastpath", os.Getenv("VERIF_BUILD")+"/C03.config.journal")
	if err != nil {
		t.Fatal(err)
	}
	defer nat.Close()
	ifaces, err := pickInterfaces()
	if err != nil {
		run.Inconclusive("interfaces", err.Error())
		return
	}
	pools := []poolCfg{
		{"10.20.0.0/16", "10.20.0.1", []string{"8.8.8.8", "1.1.1.1"}, time.Hour, net.IPv4(10, 20, 0, 1)},
		{"192.168.7.0/24", "192.168.7.254", []string{"9.9.9.9"}, 90 * time.Second, net.IPv4(192, 168, 7, 2)},
		{"172.16.4.8/29", "172.16.4.9", nil, 24 * time.Hour, net.IPv4(172, 16, 4, 9)},
		{"100.64.0.0/14", "100.64.0.1", []string{"4.3.2.1", "8.7.6.5"}, 10 * time.Minute, net.IPv4(100, 64, 0, 200)},
		{"10.9.8.0/28", "10.9.8.1", []string{"1.2.3.4"}, 7 * 24 * time.Hour, net.IPv4(203, 0, 113, 77)},
	}
	mkPool := func(id uint32, pc poolCfg) *dhcp.Pool {
		p, err := dhcp.NewPool(dhcp.PoolConfig{ID: id, Name: fmt.Sprintf("p%d", id), Network: pc.network, Gateway: pc.gateway, DNSServers: pc.dns, LeaseTime: pc.lease})
		if err != nil {
			t.Fatal(err)
		}
		return p
	}
	histories := run.Pick(80, 1500)
	for h := 0; h < histories; h++ {
		rng := run.SubRand("cfg-hist", h)
		pc := pools[h%len(pools)]
		ifc := ifaces[h%2]
		synctest.Test(t, func(t *testing.T) {
			resetKernelMaps(k)
			ld, _ := bngebpf.NewLoader(ifc.name, zap.NewNop())
			ld.VerifSetMaps(k.Coll.Maps)
			pm := dhcp.NewPoolManager(ld, zap.NewNop())
			baseID := uint32(1 + h%3)
			srv, err := dhcp.NewServer(dhcp.ServerConfig{Interface: ifc.name, ServerIP: pc.serverIP}, ld, pm, zap.NewNop())
			if err != nil {
				t.Fatal(err)
			}
			var trace []string
			startFirst := rng.IntN(2) == 0
			start := func() bool {
				if err := startConfigured(srv); err != nil {
					run.Inconclusive("server-start", fmt.Sprintf("dhcp.Server.Start on %s: %v", ifc.name, err))
					return false
				}
				synctest.Wait()
				run.Count("cp_server_started_on_"+ifc.kind, 1)
				trace = append(trace, fmt.Sprintf("Server.Start on %s (%s), server ip %v", ifc.name, ifc.kind, pc.serverIP))
				return true
			}
			if startFirst && !start() {
				return
			}
			if err := pm.AddPool(mkPool(baseID, pc)); err != nil {
				t.Fatal(err)
			}
			trace = append(trace, fmt.Sprintf("AddPool id=%d %+v -> registered (default)", baseID, pc))
			if !startFirst && !start() {
				return
			}
			conn := &capConn{}
			peer := &net.UDPAddr{IP: net.IPv4bcast, Port: 68}
			send := func(m *dhcpv4.DHCPv4) *dhcpv4.DHCPv4 {
				srv.VerifHandle(conn, peer, m)
				synctest.Wait()
				return conn.take()
			}
			nClients := 2 + rng.IntN(2)
			clients := make([]*client, nClients)
			for i := range clients {
				c := &client{mac: net.HardwareAddr{0x02, 0xc3, byte(h), byte(rng.IntN(256)), byte(rng.IntN(256)), byte(i + 1)}}
				if rng.IntN(2) == 0 {
					c.relay = net.IPv4(10, 250, 1, byte(1+i))
					c.cid = []byte(fmt.Sprintf("%c-port-%d", 'A'+i, rng.IntN(1000)))
				}
				clients[i] = c
			}
			secondary := map[uint32]bool{}
			rejectedAdd, rejectedRemove, acceptedAdd, acceptedRemove := 0, 0, 0, 0
			xid := uint32(0xc0000000) | uint32(h)<<12
			steps := 6 + rng.IntN(run.Pick(8, 16))
			for s := 0; s < steps; s++ {
				xid++
				controlPlane := false
				switch x := rng.IntN(10); {
				case x < 2: // DISCOVER
					c := clients[rng.IntN(nClients)]
					if r := send(c.request(dhcpv4.MessageTypeDiscover, xid, nil, nil)); r != nil && r.MessageType() == dhcpv4.MessageTypeOffer {
						c.offered = r.YourIPAddr
						if c.bound != nil {
							c.ref = r
						}
						trace = append(trace, fmt.Sprintf("%s DISCOVER -> OFFER %v", c.mac, r.YourIPAddr))
					} else {
						trace = append(trace, fmt.Sprintf("%s DISCOVER -> no offer", c.mac))
					}
				case x < 5: // DISCOVER (if needed) + REQUEST: the client gets or renews its binding
					c := clients[rng.IntN(nClients)]
					want := c.bound
					if want == nil {
						r := send(c.request(dhcpv4.MessageTypeDiscover, xid, nil, nil))
						if r == nil || r.MessageType() != dhcpv4.MessageTypeOffer {
							trace = append(trace, fmt.Sprintf("%s DISCOVER -> no offer", c.mac))
							break
						}
						want, c.offered = r.YourIPAddr, r.YourIPAddr
						xid++
					}
					r := send(c.request(dhcpv4.MessageTypeRequest, xid, want, nil))
					if r != nil && r.MessageType() == dhcpv4.MessageTypeAck {
						c.bound, c.ref, c.ended = r.YourIPAddr, r, ""
						trace = append(trace, fmt.Sprintf("%s REQUEST %v -> ACK", c.mac, want))
					} else {
						trace = append(trace, fmt.Sprintf("%s REQUEST %v -> %v", c.mac, want, r))
					}
				case x < 6: // RELEASE
					c := clients[rng.IntN(nClients)]
					if c.bound == nil {
						continue
					}
					send(c.request(dhcpv4.MessageTypeRelease, xid, nil, c.bound))
					c.bound, c.offered, c.ref, c.ended = nil, nil, nil, "released"
					trace = append(trace, fmt.Sprintf("%s RELEASE", c.mac))
				case x < 8: // AddPool under the id of a registered pool, offering other parameters
					controlPlane = true
					id := baseID
					if len(secondary) > 0 && rng.IntN(3) == 0 {
						for sid := range secondary {
							if id == baseID || sid < id {
								id = sid
							}
						}
					}
					oc := pools[(h+1+rng.IntN(len(pools)-1))%len(pools)]
					err := pm.AddPool(mkPool(id, oc))
					if err != nil {
						rejectedAdd++
						run.Count("cp_addpool_refused", 1)
					} else {
						run.Count("cp_addpool_same_id_accepted", 1)
					}
					trace = append(trace, fmt.Sprintf("AddPool id=%d %+v -> %v", id, oc, err))
				case x < 9: // AddPool of a further pool / RemovePool of one
					controlPlane = true
					id := uint32(10 + rng.IntN(3))
					if secondary[id] && rng.IntN(2) == 0 {
						err := pm.RemovePool(id)
						if err == nil {
							delete(secondary, id)
							acceptedRemove++
							run.Count("cp_removepool_done", 1)
						}
						trace = append(trace, fmt.Sprintf("RemovePool id=%d -> %v", id, err))
						break
					}
					oc := pools[rng.IntN(len(pools))]
					err := pm.AddPool(mkPool(id, oc))
					if err == nil {
						secondary[id] = true
						acceptedAdd++
						run.Count("cp_addpool_further_pool_registered", 1)
					} else {
						rejectedAdd++
						run.Count("cp_addpool_refused", 1)
					}
					trace = append(trace, fmt.Sprintf("AddPool id=%d %+v -> %v", id, oc, err))
				default: // RemovePool of an id that is not registered
					controlPlane = true
					id := uint32(40 + rng.IntN(3))
					err := pm.RemovePool(id)
					if err != nil {
						rejectedRemove++
						run.Count("cp_removepool_refused", 1)
					}
					trace = append(trace, fmt.Sprintf("RemovePool id=%d -> %v", id, err))
				}
				if controlPlane {
					// what userspace sends to each bound client NOW
					for _, c := range clients {
						if c.bound == nil {
							continue
						}
						xid++
						if r := send(c.request(dhcpv4.MessageTypeDiscover, xid, nil, nil)); r != nil && r.MessageType() == dhcpv4.MessageTypeOffer {
							c.ref, c.offered = r, r.YourIPAddr
							run.Count("cp_reference_reread", 1)
						} else {
							c.ref = nil // userspace does not answer this client now: nothing to compare with
							run.Count("cp_reference_unavailable", 1)
						}
					}
				}
				copyMapsToNative(k, nat)
				for ci, c := range clients {
					shapes := []probeShape{
						{name: "discover", msg: 1, pad: 64},
						{name: "request", msg: 3, pad: 80},
						{name: "discover-long", msg: 1, pad: 308},
						{name: "request-qinq", msg: 3, pad: 70, vlans: [][2]uint16{{0x88a8, 200}, {0x8100, 300}}},
					}
					if c.relay != nil {
						shapes = append(shapes, probeShape{name: "discover-relayed", msg: 1, pad: 100, relayed: true}, probeShape{name: "request-relayed", msg: 3, pad: 100, relayed: true})
					}
					for pi, ps := range shapes {
						xid++
						frame := buildProbe(c, ps, xid)
						nat.Clock(uint64(1000+s) * 1_000_000_000)
						res, err := nat.Run("dhcp_fastpath_prog", frame, cplane.RunOpt{Placement: (s + pi) % 2, IfIndex: 2})
						if err != nil {
							run.Violation("bpf/dhcp_fastpath.c", "memory-safety", "sanitizer-or-guard-fault", err.Error(), map[string]any{"probe": ps.name, "frame": fmt.Sprintf("%x", frame), "history": trace})
							return
						}
						run.Eval()
						run.Count("cp_probes", 1)
						wit := func() any {
							return map[string]any{"pool": fmt.Sprintf("%+v", pc), "pool_id": baseID, "interface": ifc.name + " (" + ifc.kind + ")", "client": c.mac.String(), "relay": fmt.Sprint(c.relay), "circuit_id": string(c.cid), "history": trace, "probe": ps.name, "frame": fmt.Sprintf("%x", frame), "verdict": res.Verdict, "out": fmt.Sprintf("%x", res.Out)}
						}
						switch res.Verdict {
						case 2:
							run.Count("verdict_pass", 1)
							if string(res.Out) != string(frame) {
								run.Violation("bpf/dhcp_fastpath.c", "pass-is-byte-identical", "modified-then-passed/"+ps.name, "the frame handed to userspace differs from the frame received", wit())
							}
						case 3:
							run.Count("verdict_tx", 1)
							if !judgeTx(c, ps, frame, res.Out, wit) {
								continue
							}
							run.Nontrivial(fmt.Sprintf("cp|%d|%s|%s|%v", h%len(pools), ifc.kind, ps.name, c.relay != nil))
							run.Count("cp_replies_compared", 1)
							run.Count("cp_replies_compared_on_"+ifc.kind, 1)
							if !pc.serverIP.Equal(net.ParseIP(pc.gateway)) {
								run.Count("cp_replies_compared_server_ip_not_gateway_on_"+ifc.kind, 1)
							}
							if rejectedAdd > 0 {
								run.Count("cp_replies_compared_after_refused_addpool", 1)
							}
							if rejectedRemove > 0 {
								run.Count("cp_replies_compared_after_refused_removepool", 1)
							}
							if acceptedAdd > 0 {
								run.Count("cp_replies_compared_after_further_pool_registered", 1)
							}
							if acceptedRemove > 0 {
								run.Count("cp_replies_compared_after_pool_removed", 1)
							}
							if !startFirst {
								run.Count("cp_replies_compared_server_started_after_pool", 1)
							} else {
								run.Count("cp_replies_compared_server_started_before_pool", 1)
							}
						default:
							run.Count(fmt.Sprintf("verdict_%d", res.Verdict), 1)
						}
						_ = ci
					}
				}
			}
			if h < 2 {
				run.Sample(map[string]any{"control_plane_history": trace, "interface": ifc.name, "pool": fmt.Sprintf("%+v", pc)})
			}
		})
	}
	// a run that did not compare replies in these states has not looked at the configuration paths at all
	run.Floor("cp_replies_compared_after_refused_addpool", 200)
	run.Floor("cp_replies_compared_after_refused_removepool", 100)
	run.Floor("cp_replies_compared_after_further_pool_registered", 100)
	run.Floor("cp_replies_compared_on_iface_with_hwaddr", 200)
	run.Floor("cp_replies_compared_on_iface_without_hwaddr", 200)
	run.Floor("cp_replies_compared_server_ip_not_gateway_on_iface_without_hwaddr", 50)
	run.Floor("cp_replies_compared_server_ip_not_gateway_on_iface_with_hwaddr", 50)
}
