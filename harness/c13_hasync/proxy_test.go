package c13

import (
	"bufio"
	"bytes"
	"context"
	"encoding/json"
	"fmt"
	"io"
	"net"
	"net/http"
	"sync"
	"sync/atomic"
	"time"

	"github.com/codelaboratoryltd/bng/pkg/ha"
)

// ---------------------------------------------------------------- harness-owned reverse proxy between standby and active
//
// The standby's Partner.Endpoint is the proxy; the proxy forwards to the active's real listener.
// Every request of the standby becomes an event the scenario driver has to release, which gives
// the driver the interleavings a verifPoint between performFullSync and connectToStream would
// give (DESIGN §4), from outside the code under test:
//
//	"get"       GET /ha/sessions arrived, not yet forwarded           (release: forward | 503 | abort)
//	"snapshot"  the active's response is here, not yet handed back    (release: deliver | truncate)
//	"stream"    GET /ha/sessions/stream arrived = the standby's performFullSync has returned
//	                                                                  (release: forward | 503)
//	"attached"  (async) the active answered the stream request: its client channel is registered
//	"ended"     (async) the relay of that stream is over (cut by the driver, or either side went away)
//
// The SSE events relayed to the standby are logged (wire log).

type pxAction struct{ Fail string }

type pxEvent struct {
	Kind    string
	Body    []byte
	Stamp   int64
	release chan pxAction
}

type wireMsg struct {
	Stamp int64  `json:"stamp"`
	Type  string `json:"type"`
	Op    uint64 `json:"op,omitempty"`
	SID   string `json:"session,omitempty"`
	Seq   uint64 `json:"seq"`
}

type streamCtl struct {
	cut  chan string
	kick chan struct{}
}

type proxy struct {
	clock    *int64
	upstream string
	smallBuf bool
	ln       net.Listener
	srv      *http.Server
	tr       *http.Transport
	cl       *http.Client
	ev       chan *pxEvent
	closed   chan struct{}
	once     sync.Once

	mu      sync.Mutex
	wire    []wireMsg
	cur     *streamCtl
	stalled bool
}

func newProxy(clock *int64, upstream string, smallBuf bool) (*proxy, error) {
	ln, err := net.Listen("tcp", "127.0.0.1:0")
	if err != nil {
		return nil, err
	}
	p := &proxy{clock: clock, upstream: upstream, smallBuf: smallBuf, ln: ln, ev: make(chan *pxEvent, 64), closed: make(chan struct{})}
	d := &net.Dialer{Timeout: 10 * time.Second}
	p.tr = &http.Transport{
		DisableKeepAlives: true,
		DialContext: func(ctx context.Context, network, addr string) (net.Conn, error) {
			c, err := d.DialContext(ctx, network, addr)
			if err == nil && p.smallBuf {
				if tc, ok := c.(*net.TCPConn); ok {
					tc.SetReadBuffer(4096) // a thin link: the active feels back-pressure early
				}
			}
			return c, err
		},
	}
	p.cl = &http.Client{Transport: p.tr}
	p.srv = &http.Server{Handler: p}
	go p.srv.Serve(ln)
	return p, nil
}

func (p *proxy) addr() string { return p.ln.Addr().String() }

func (p *proxy) close() {
	p.once.Do(func() {
		close(p.closed)
		p.srv.Close()
		p.tr.CloseIdleConnections()
	})
}

func (p *proxy) stamp() int64 { return atomic.AddInt64(p.clock, 1) }

// emit hands a gated event to the driver and waits for its decision.
func (p *proxy) emit(r *http.Request, kind string, body []byte) pxAction {
	e := &pxEvent{Kind: kind, Body: body, Stamp: p.stamp(), release: make(chan pxAction, 1)}
	select {
	case p.ev <- e:
	case <-p.closed:
		return pxAction{Fail: "gone"}
	case <-r.Context().Done():
		return pxAction{Fail: "gone"}
	}
	select {
	case a := <-e.release:
		return a
	case <-p.closed:
		return pxAction{Fail: "gone"}
	case <-r.Context().Done():
		return pxAction{Fail: "gone"}
	}
}

func (p *proxy) note(kind string) {
	e := &pxEvent{Kind: kind, Stamp: p.stamp()}
	select {
	case p.ev <- e:
	case <-p.closed:
	}
}

// cut ends the current stream relay: "clean" finishes the response (the standby reads EOF),
// "abort" drops the connection in the middle of the response.
func (p *proxy) cut(mode string) bool {
	p.mu.Lock()
	defer p.mu.Unlock()
	if p.cur == nil {
		return false
	}
	select {
	case p.cur.cut <- mode:
	default:
	}
	return true
}

// stall makes the relay stop reading from the active (a congested link) until stall(false).
func (p *proxy) stall(on bool) {
	p.mu.Lock()
	p.stalled = on
	c := p.cur
	p.mu.Unlock()
	if c != nil {
		select {
		case c.kick <- struct{}{}:
		default:
		}
	}
}

func (p *proxy) isStalled() bool { p.mu.Lock(); defer p.mu.Unlock(); return p.stalled }

func (p *proxy) wireCopy() []wireMsg {
	p.mu.Lock()
	defer p.mu.Unlock()
	return append([]wireMsg(nil), p.wire...)
}

func (p *proxy) ServeHTTP(w http.ResponseWriter, r *http.Request) {
	switch r.URL.Path {
	case "/ha/sessions":
		p.serveGet(w, r)
	case "/ha/sessions/stream":
		p.serveStream(w, r)
	default:
		http.NotFound(w, r)
	}
}

func (p *proxy) serveGet(w http.ResponseWriter, r *http.Request) {
	switch a := p.emit(r, "get", nil); a.Fail {
	case "":
	case "503":
		http.Error(w, "c13 proxy: partner unavailable", http.StatusServiceUnavailable)
		return
	default: // abort | gone
		panic(http.ErrAbortHandler)
	}
	req, _ := http.NewRequestWithContext(r.Context(), "GET", "http://"+p.upstream+"/ha/sessions", nil)
	resp, err := p.cl.Do(req)
	if err != nil {
		p.note("upstream-error:" + err.Error())
		http.Error(w, err.Error(), http.StatusBadGateway)
		return
	}
	body, err := io.ReadAll(resp.Body)
	resp.Body.Close()
	if err != nil || resp.StatusCode != 200 {
		p.note(fmt.Sprintf("upstream-error: status %d err %v", resp.StatusCode, err))
		http.Error(w, "upstream", http.StatusBadGateway)
		return
	}
	a := p.emit(r, "snapshot", body)
	w.Header().Set("Content-Type", resp.Header.Get("Content-Type"))
	switch a.Fail {
	case "":
		w.Write(body)
	case "truncate":
		w.Write(body[:len(body)/2]) // a complete HTTP response carrying half of the JSON document
	default:
		panic(http.ErrAbortHandler)
	}
}

func (p *proxy) serveStream(w http.ResponseWriter, r *http.Request) {
	switch a := p.emit(r, "stream", nil); a.Fail {
	case "":
	case "503":
		http.Error(w, "c13 proxy: partner unavailable", http.StatusServiceUnavailable)
		return
	default:
		panic(http.ErrAbortHandler)
	}
	fl, _ := w.(http.Flusher)
	ctx, cancel := context.WithCancel(r.Context())
	defer cancel()
	req, _ := http.NewRequestWithContext(ctx, "GET", "http://"+p.upstream+"/ha/sessions/stream", nil)
	resp, err := p.cl.Do(req)
	if err != nil {
		p.note("upstream-error:" + err.Error())
		http.Error(w, err.Error(), http.StatusBadGateway)
		return
	}
	defer resp.Body.Close()
	ctl := &streamCtl{cut: make(chan string, 1), kick: make(chan struct{}, 1)}
	p.mu.Lock()
	p.cur = ctl
	p.mu.Unlock()
	defer func() {
		p.mu.Lock()
		if p.cur == ctl {
			p.cur = nil
		}
		p.mu.Unlock()
	}()
	for k, v := range resp.Header {
		if k == "Content-Type" || k == "Cache-Control" {
			w.Header()[k] = v
		}
	}
	w.WriteHeader(resp.StatusCode)
	p.note("attached") // queued before the standby can react to the status line
	fl.Flush()         // the active has answered, i.e. registered the client: let the standby see the status now

	ch := make(chan []byte)
	go func() {
		defer close(ch)
		br := bufio.NewReader(resp.Body)
		var evt []byte
		for {
			line, err := br.ReadBytes('\n')
			evt = append(evt, line...)
			if err != nil {
				return
			}
			if len(line) == 1 { // blank line: end of one SSE event
				select {
				case ch <- evt:
				case <-ctx.Done():
					return
				}
				evt = nil
			}
		}
	}()
	for {
		in := (<-chan []byte)(ch)
		if p.isStalled() {
			in = nil
		}
		select {
		case evt, ok := <-in:
			if !ok {
				p.note("ended")
				return
			}
			if _, err := w.Write(evt); err != nil {
				cancel()
				p.note("ended")
				return
			}
			fl.Flush()
			p.logWire(evt)
		case <-ctl.kick:
		case mode := <-ctl.cut:
			cancel()
			p.note("ended")
			if mode == "abort" {
				panic(http.ErrAbortHandler)
			}
			return
		case <-r.Context().Done():
			p.note("ended")
			return
		case <-p.closed:
			return
		}
	}
}

func (p *proxy) logWire(evt []byte) {
	for _, line := range bytes.Split(evt, []byte("\n")) {
		if !bytes.HasPrefix(line, []byte("data: ")) {
			continue
		}
		var m ha.SyncMessage
		if json.Unmarshal(line[6:], &m) != nil {
			continue
		}
		wm := wireMsg{Stamp: p.stamp(), Type: string(m.Type), Seq: m.SequenceNum}
		if len(m.Sessions) > 0 {
			wm.Op, wm.SID = m.Sessions[0].BytesIn, m.Sessions[0].SessionID
		}
		p.mu.Lock()
		p.wire = append(p.wire, wm)
		p.mu.Unlock()
	}
}
