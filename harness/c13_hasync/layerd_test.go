package c13

import (
	"bufio"
	"context"
	"fmt"
	"io"
	"math/rand/v2"
	"net"
	"net/http"
	"os"
	"strconv"
	"strings"
	"sync"
	"sync/atomic"
	"testing"
	"time"

	"github.com/codelaboratoryltd/bng/pkg/ha"
	"go.uber.org/zap"
	"go.uber.org/zap/zapcore"
	"go.uber.org/zap/zaptest/observer"
)

// ---------------------------------------------------------------- layer D: faults on the HTTP exchanges of a (re)connection attempt
//
// Layers B and C let every request of a connection attempt succeed or fail as a whole. A real
// link (a flaky front end, an overloaded active) fails the exchanges of one attempt
// independently: the stream request is refused / answered non-200 / accepted, and the snapshot
// request that goes with it is refused / answered 5xx / times out / is answered with half a
// document / with something that is no JSON / with the snapshot. Layer D puts a harness-owned
// front end between a real standby and a real active (Start() on both) that follows a per-attempt
// fault plan, several attempts in a row, in every combination and order, while sessions are
// added, updated and deleted on the active before the cut, while the standby is away, during the
// attempts (before the stream request is forwarded, before the snapshot request is forwarded,
// after the active served the snapshot) and afterwards.
//
// Oracle (statement, last sentence): whenever the standby reports IsConnected() and the active is
// quiet -- a sentinel pushed after every other change has come through the standby's present
// stream, no request of the standby was in progress or arrived meanwhile -- the standby holds
// exactly the active's sessions. Hence what changed during an outage is there after the
// reconnect, and a standby that did not get the snapshot may retry, or stay disconnected, or
// happen to be equal, but may not report the link up with a different table.

const compConnect = "ha.HASyncer.connectToStream"

var (
	fdSnapFaults   = []string{"refuse", "500", "503", "timeout", "truncate", "cutbody", "garbage", "badjson", "empty"}
	fdStreamFaults = []string{"refuse", "503", "404", "accept-cut"}
)

// fdPlan is what the front end does to one connection attempt of the standby.
type fdPlan struct {
	Stream          string `json:"stream_request"`   // accept | refuse | 503 | 404 | accept-cut (accepted, ended when the snapshot request arrives)
	Snap            string `json:"snapshot_request"` // valid | refuse | 500 | 503 | timeout | truncate | cutbody | garbage | badjson | empty
	OpsBeforeStream int    `json:"changes_before_stream_request_is_forwarded"`
	OpsBeforeSnap   int    `json:"changes_before_snapshot_request_is_forwarded"`
	OpsAfterSnap    int    `json:"changes_after_active_served_snapshot"`
	Seed            uint64 `json:"-"`
}

// fdAttempt is what the front end saw of one connection attempt.
type fdAttempt struct {
	N             int     `json:"attempt"`
	Plan          *fdPlan `json:"plan,omitempty"` // nil: not planned, everything forwarded
	Stream        string  `json:"stream_request"` // "" = none seen
	Snap          string  `json:"snapshot_request"`
	SnapDelivered bool    `json:"complete_snapshot_handed_to_standby"`
	StreamAt      int64   `json:"stream_request_stamp,omitempty"`
	SnapAt        int64   `json:"snapshot_request_stamp,omitempty"`
	Note          string  `json:"note,omitempty"`

	streamSeen, snapSeen bool
	st                   *fdStream
}

func (a fdAttempt) combo() string {
	s, g := a.Stream, a.Snap
	if s == "" {
		s = "none"
	}
	if g == "" {
		g = "none"
	}
	return "stream-" + s + "_snapshot-" + g
}

func (a fdAttempt) streamOK() bool { return a.Stream == "accept" || a.Stream == "accept-cut" }
func (a fdAttempt) faulted() bool {
	return a.Stream != "accept" || a.Snap != "valid"
}

type fdStream struct {
	attempt int
	cut     chan string
	ended   atomic.Bool
}

type fdFront struct {
	clock    *int64
	upstream string
	ln       net.Listener
	srv      *http.Server
	tr       *http.Transport
	cl       *http.Client
	closed   chan struct{}
	once     sync.Once
	during   func(pl *fdPlan, n, slot int) // makes n changes on the active (set by the scenario)
	snap     func(p *fdFront, w http.ResponseWriter, r *http.Request)

	mu       sync.Mutex
	plans    []*fdPlan
	attempts []*fdAttempt
	cur      *fdAttempt
	live     *fdStream
	gate     chan struct{}
	seq      int // requests of the standby that have arrived
	busy     int // requests being handled (an accepted stream counts until its status line is out)
	stale    int // snapshot requests the standby had abandoned before the front end got to them
}

func newFdFront(clock *int64, upstream string) (*fdFront, error) {
	return newFdFrontSnap(clock, upstream, nil)
}

// newFdFrontSnap: snap, if not nil, handles the snapshot requests instead of the per-attempt plans (layer E).
func newFdFrontSnap(clock *int64, upstream string, snap func(p *fdFront, w http.ResponseWriter, r *http.Request)) (*fdFront, error) {
	ln, err := net.Listen("tcp", "127.0.0.1:0")
	if err != nil {
		return nil, err
	}
	p := &fdFront{clock: clock, upstream: upstream, ln: ln, closed: make(chan struct{}), snap: snap}
	d := &net.Dialer{Timeout: 10 * time.Second}
	p.tr = &http.Transport{DisableKeepAlives: true, DialContext: d.DialContext}
	p.cl = &http.Client{Transport: p.tr}
	p.srv = &http.Server{Handler: p}
	// one connection per request: the standby's transport never re-sends a refused request on its own
	p.srv.SetKeepAlivesEnabled(false)
	go p.srv.Serve(ln)
	return p, nil
}

func (p *fdFront) addr() string { return p.ln.Addr().String() }
func (p *fdFront) stamp() int64 { return atomic.AddInt64(p.clock, 1) }

func (p *fdFront) close() {
	p.once.Do(func() {
		close(p.closed)
		p.mu.Lock()
		g := p.gate
		p.gate = nil
		p.mu.Unlock()
		if g != nil {
			close(g)
		}
		p.srv.Close()
		p.tr.CloseIdleConnections()
	})
}

// load replaces the pending plans; it returns how many of the previous ones were never used.
func (p *fdFront) load(plans []*fdPlan) int {
	p.mu.Lock()
	defer p.mu.Unlock()
	left := len(p.plans)
	p.plans = append([]*fdPlan(nil), plans...)
	return left
}

func (p *fdFront) pending() int { p.mu.Lock(); defer p.mu.Unlock(); return len(p.plans) }

func (p *fdFront) armGate() {
	p.mu.Lock()
	if p.gate == nil {
		p.gate = make(chan struct{})
	}
	p.mu.Unlock()
}

func (p *fdFront) releaseGate() {
	p.mu.Lock()
	if p.gate != nil {
		close(p.gate)
		p.gate = nil
	}
	p.mu.Unlock()
}

// quiet: an accepted stream is being relayed and no request of the standby is being handled.
func (p *fdFront) quiet() (*fdStream, int, bool) {
	p.mu.Lock()
	defer p.mu.Unlock()
	if p.live == nil || p.live.ended.Load() || p.busy != 0 {
		return nil, p.seq, false
	}
	return p.live, p.seq, true
}

func (p *fdFront) cutLive(mode string) *fdStream {
	p.mu.Lock()
	st := p.live
	p.mu.Unlock()
	if st == nil {
		return nil
	}
	select {
	case st.cut <- mode:
	default:
	}
	return st
}

func (p *fdFront) attemptsCopy() []fdAttempt {
	p.mu.Lock()
	defer p.mu.Unlock()
	out := make([]fdAttempt, len(p.attempts))
	for i, a := range p.attempts {
		out[i] = *a
	}
	return out
}

func (p *fdFront) newAttemptLocked() *fdAttempt {
	a := &fdAttempt{N: len(p.attempts)}
	if len(p.plans) > 0 {
		a.Plan, p.plans = p.plans[0], p.plans[1:]
	}
	p.attempts = append(p.attempts, a)
	p.cur = a
	return a
}

func (p *fdFront) note(a *fdAttempt, field *string, v string) {
	p.mu.Lock()
	*field = v
	p.mu.Unlock()
}

func (p *fdFront) ServeHTTP(w http.ResponseWriter, r *http.Request) {
	switch r.URL.Path {
	case "/ha/sessions":
		if p.snap != nil {
			p.snap(p, w, r)
			return
		}
		p.serveSnap(w, r)
	case "/ha/sessions/stream":
		p.serveStream(w, r)
	default:
		http.NotFound(w, r)
	}
}

func (p *fdFront) serveStream(w http.ResponseWriter, r *http.Request) {
	p.mu.Lock()
	g := p.gate
	p.mu.Unlock()
	if g != nil { // the driver keeps the standby out while it changes the active's table
		select {
		case <-g:
		case <-p.closed:
			panic(http.ErrAbortHandler)
		case <-r.Context().Done():
			panic(http.ErrAbortHandler)
		}
	}
	p.mu.Lock()
	p.seq++
	p.busy++
	a := p.cur
	if a == nil || a.streamSeen {
		a = p.newAttemptLocked()
	}
	a.streamSeen = true
	a.StreamAt = p.stamp()
	fault := "accept"
	if a.Plan != nil {
		fault = a.Plan.Stream
	}
	a.Stream = fault
	p.mu.Unlock()
	released := false
	release := func() {
		if !released {
			released = true
			p.mu.Lock()
			p.busy--
			p.mu.Unlock()
		}
	}
	defer release()
	if a.Plan != nil && p.during != nil {
		p.during(a.Plan, a.Plan.OpsBeforeStream, 0)
	}
	switch fault {
	case "refuse":
		panic(http.ErrAbortHandler) // the connection is closed without an answer
	case "503":
		http.Error(w, "c13 front end: partner unavailable", http.StatusServiceUnavailable)
		return
	case "404":
		http.Error(w, "c13 front end: no such route", http.StatusNotFound)
		return
	}
	fl, _ := w.(http.Flusher)
	ctx, cancel := context.WithCancel(context.Background())
	defer cancel()
	req, _ := http.NewRequestWithContext(ctx, "GET", "http://"+p.upstream+"/ha/sessions/stream", nil)
	resp, err := p.cl.Do(req)
	if err != nil {
		p.note(a, &a.Stream, "upstream-error")
		http.Error(w, err.Error(), http.StatusBadGateway)
		return
	}
	defer resp.Body.Close()
	if resp.StatusCode != 200 {
		p.note(a, &a.Stream, "upstream-error")
		http.Error(w, "upstream", http.StatusBadGateway)
		return
	}
	st := &fdStream{attempt: a.N, cut: make(chan string, 1)}
	for k, v := range resp.Header {
		if k == "Content-Type" || k == "Cache-Control" {
			w.Header()[k] = v
		}
	}
	w.WriteHeader(200)
	p.mu.Lock()
	p.live, a.st = st, st
	p.mu.Unlock()
	release()
	fl.Flush() // the active has registered the client: the standby sees the status line now

	ch := make(chan []byte)
	go func() {
		defer close(ch)
		br := bufio.NewReader(resp.Body)
		var evt []byte
		for {
			line, err := br.ReadBytes('\n')
			evt = append(evt, line...)
			if err != nil {
				return
			}
			if len(line) == 1 {
				select {
				case ch <- evt:
				case <-ctx.Done():
					return
				}
				evt = nil
			}
		}
	}()
	end := func() {
		cancel()
		st.ended.Store(true)
		p.mu.Lock()
		if p.live == st {
			p.live = nil
		}
		p.mu.Unlock()
	}
	defer end()
	for {
		select {
		case evt, ok := <-ch:
			if !ok {
				return // the active ended the stream
			}
			if _, err := w.Write(evt); err != nil {
				return
			}
			fl.Flush()
		case mode := <-st.cut:
			end()
			if mode == "abort" {
				panic(http.ErrAbortHandler)
			}
			return
		case <-r.Context().Done():
			return
		case <-p.closed:
			return
		}
	}
}

func (p *fdFront) serveSnap(w http.ResponseWriter, r *http.Request) {
	p.mu.Lock()
	p.seq++
	if r.Context().Err() != nil {
		// the standby gave up (its deadline) before this handler was even scheduled: the request belongs
		// to an attempt that is over, not to the one in progress now
		p.stale++
		p.mu.Unlock()
		panic(http.ErrAbortHandler)
	}
	p.busy++
	a := p.cur
	if a == nil || a.snapSeen { // a snapshot request that does not follow a stream request of its own
		a = p.newAttemptLocked()
	}
	a.snapSeen = true
	a.SnapAt = p.stamp()
	fault := "valid"
	if a.Plan != nil {
		fault = a.Plan.Snap
	}
	a.Snap = fault
	st := a.st
	p.mu.Unlock()
	defer func() {
		p.mu.Lock()
		p.busy--
		p.mu.Unlock()
	}()
	if a.Plan != nil && a.Plan.Stream == "accept-cut" && st != nil {
		select {
		case st.cut <- "clean":
		default:
		}
		for i := 0; i < 25000 && !st.ended.Load(); i++ {
			time.Sleep(200 * time.Microsecond)
		}
	}
	if a.Plan != nil && p.during != nil {
		p.during(a.Plan, a.Plan.OpsBeforeSnap, 1)
	}
	switch fault {
	case "refuse":
		panic(http.ErrAbortHandler)
	case "500":
		http.Error(w, "c13 front end: internal error", http.StatusInternalServerError)
		return
	case "503":
		http.Error(w, "c13 front end: partner unavailable", http.StatusServiceUnavailable)
		return
	case "timeout": // no answer for as long as the standby is willing to wait
		t := time.NewTimer(20 * time.Second)
		defer t.Stop()
		select {
		case <-r.Context().Done():
			p.note(a, &a.Note, "standby gave up waiting for the snapshot")
			panic(http.ErrAbortHandler)
		case <-p.closed:
			panic(http.ErrAbortHandler)
		case <-t.C:
			p.note(a, &a.Note, "standby still waiting after 20 s; answered 504")
			http.Error(w, "c13 front end: gateway timeout", http.StatusGatewayTimeout)
			return
		}
	}
	req, _ := http.NewRequestWithContext(r.Context(), "GET", "http://"+p.upstream+"/ha/sessions", nil)
	resp, err := p.cl.Do(req)
	if err != nil {
		p.note(a, &a.Snap, "upstream-error")
		http.Error(w, err.Error(), http.StatusBadGateway)
		return
	}
	body, err := io.ReadAll(resp.Body)
	resp.Body.Close()
	if err != nil || resp.StatusCode != 200 {
		p.note(a, &a.Snap, "upstream-error")
		http.Error(w, "upstream", http.StatusBadGateway)
		return
	}
	if a.Plan != nil && p.during != nil {
		p.during(a.Plan, a.Plan.OpsAfterSnap, 2)
	}
	w.Header().Set("Content-Type", resp.Header.Get("Content-Type"))
	switch fault {
	case "valid":
		// (once the whole body is out the standby closes the connection, which cancels the request
		// context: whether the standby had given up is looked at before writing, not after)
		gaveUp := r.Context().Err() != nil
		w.Header().Set("Content-Length", strconv.Itoa(len(body)))
		_, err := w.Write(body)
		if fl, ok := w.(http.Flusher); ok {
			fl.Flush()
		}
		if err == nil && !gaveUp {
			p.mu.Lock()
			a.SnapDelivered = true
			p.mu.Unlock()
		}
	case "truncate": // a complete HTTP response carrying half of the document
		w.Header().Set("Content-Length", strconv.Itoa(len(body)/2))
		w.Write(body[:len(body)/2])
	case "cutbody": // the connection breaks in the middle of the body
		w.Header().Set("Content-Length", strconv.Itoa(len(body)))
		w.Write(body[:len(body)/2])
		if fl, ok := w.(http.Flusher); ok {
			fl.Flush()
		}
		panic(http.ErrAbortHandler)
	case "garbage": // an error page with status 200
		w.Header().Set("Content-Type", "text/html")
		io.WriteString(w, "<html><head><title>Service temporarily unavailable</title></head><body><h1>Please try again later</h1></body></html>\n")
	case "badjson": // JSON that is not a sync message
		io.WriteString(w, `{"type":"full","sessions":"unavailable","timestamp":0,"node_id":17}`+"\n")
	case "empty":
		w.Header().Set("Content-Length", "0")
		w.WriteHeader(200)
	}
}

// ---------------------------------------------------------------- scenario

type fdPoint struct {
	Episode        int      `json:"episode"`
	Attempts       []string `json:"attempts_since_previous_point"`
	OwnerAttempt   int      `json:"attempt_owning_the_connected_stream"`
	OwnerGotSnap   bool     `json:"complete_snapshot_handed_to_standby_on_that_attempt"`
	NeededResync   bool     `json:"standby_table_at_cut_differed_from_active_table_now"`
	Equal          bool     `json:"tables_equal"`
	SentinelOp     uint64   `json:"sentinel_op"`
	StandbyTable   string   `json:"standby_table"`
	ActiveTable    string   `json:"active_table"`
	TableAtCut     string   `json:"standby_table_at_cut"`
	RequestsByThen int      `json:"requests_of_standby_seen_by_then"`
}

type fdEpisode struct {
	N      int       `json:"episode"`
	Cut    string    `json:"cut,omitempty"`
	Away   int       `json:"changes_while_standby_held_out"`
	Plans  []*fdPlan `json:"planned_attempts"`
	Points int       `json:"convergence_points"`
}

type fdScenario struct {
	idx      int
	rng      *rand.Rand
	base     *scenario
	fe       *fdFront
	sb       *ha.HASyncer
	store    *recStore
	timeouts bool
	snapTO   time.Duration

	opMu       sync.Mutex // one change (store + PushChange) at a time, whoever makes it
	episodes   []*fdEpisode
	points     []*fdPoint
	counted    int   // attempts already counted
	tableAtCut table // what the standby held when its stream was last cut
	nFaultedPt int
	nNeeded    int
	sig        []string
}

func (sc *fdScenario) cnt(k string, n int) { sc.base.cnt(k, n) }
func (sc *fdScenario) size() int           { return 400 + int(sc.base.nPush.Load()) }
func (sc *fdScenario) fail(reason string) error {
	return fmt.Errorf("%w: %s", errInconclusive, reason)
}

func (sc *fdScenario) describe() map[string]any {
	atts := sc.fe.attemptsCopy()
	if len(atts) > 40 {
		atts = atts[len(atts)-40:]
	}
	pts := sc.points
	if len(pts) > 12 {
		pts = pts[len(pts)-12:]
	}
	eps := make([]fdEpisode, len(sc.episodes)) // by value: the witness is written out later
	for i, e := range sc.episodes {
		eps[i] = *e
	}
	return map[string]any{"layer": "D", "scenario": sc.idx, "seed": run.Seed, "heartbeat_interval": sc.base.hb.String(), "snapshot_request_timeout_of_standby": sc.snapTO.String(),
		"episodes": eps, "attempts_seen_by_front_end": atts, "convergence_points": pts, "last_changes_on_active": sc.base.pushTail(30),
		"legend": "the front end between standby and active treats the standby's connection attempts one by one as planned: stream request accept | refuse (connection closed without answer) | 503 | 404 | accept-cut (accepted, ended when the snapshot request arrives); snapshot request valid | refuse | 500 | 503 | timeout (no answer until the standby gives up) | truncate (complete response, half the document) | cutbody (connection breaks in the middle of the body) | garbage (HTML page, status 200) | badjson (JSON that is no sync message) | empty (status 200, no body). Changes are made on the active while the standby is held out and during the attempts as planned."}
}

func newFdScenario(i int) *fdScenario {
	rng := run.SubRand("D", i)
	b := &scenario{idx: i, rng: rng, sentRng: run.SubRand("D-sentinel", i), model: table{}, byOp: map[uint64]*pushRec{}, lastOn: map[string]*pushRec{}, counts: map[string]int{}, pushers: 1}
	b.phase.Store("pre")
	nIDs := 2 + rng.IntN(3)
	b.ids = [][]string{nil}
	for k := 0; k < nIDs; k++ {
		b.ids[0] = append(b.ids[0], fmt.Sprintf("s%d", k))
	}
	sc := &fdScenario{idx: i, rng: rng, base: b, tableAtCut: table{}}
	// the catalogue entry of this scenario (index mod 9) may be the timeout; otherwise one in four
	sc.timeouts = fdSnapFaults[i%len(fdSnapFaults)] == "timeout" || rng.IntN(4) == 0
	return sc
}

// op makes one change on the active (its own table first, then PushChange).
func (sc *fdScenario) op(rng *rand.Rand, delBias int, phase string) {
	sc.opMu.Lock()
	sc.base.phase.Store(phase)
	sc.base.doOp(0, rng, delBias)
	sc.opMu.Unlock()
}

func (sc *fdScenario) sentinel() *pushRec {
	sc.opMu.Lock()
	defer sc.opMu.Unlock()
	sc.base.phase.Store("conn")
	return sc.base.sentinel()
}

func (sc *fdScenario) start() error {
	b := sc.base
	core, logs := observer.New(zapcore.WarnLevel)
	b.logs = logs
	logger := zap.New(core)
	b.actStore = newRecStore(&b.clock)
	sc.store = newRecStore(&b.clock)
	b.hb = pick(sc.rng, 5*time.Millisecond, 10*time.Millisecond, 20*time.Millisecond, 100*time.Millisecond)
	for i, n := 0, 1+sc.rng.IntN(4); i < n; i++ { // sessions the active has before the standby's first attempt
		sid := b.ids[0][i%len(b.ids[0])]
		if _, ok := b.model[sid]; ok {
			continue
		}
		b.nextOp++
		s := newSession(sid, b.nextOp, sc.rng)
		b.actStore.inner.PutSession(&s)
		b.model[sid] = s
	}
	var addr string
	for try := 0; ; try++ {
		a, err := freePort()
		if err != nil {
			return sc.fail(err.Error())
		}
		node := fmt.Sprintf("actD-%d-%d", sc.idx, try)
		b.act = ha.NewHASyncer(ha.SyncConfig{NodeID: node, Role: ha.RoleActive, ListenAddr: a, HeartbeatInterval: b.hb, RequestTimeout: 10 * time.Minute}, b.actStore, logger)
		if err := b.act.Start(); err != nil {
			return sc.fail(err.Error())
		}
		if waitHealthy(a, node) {
			addr = a
			break
		}
		b.act.Stop()
		if try == 5 {
			return sc.fail("active did not come up on a free loopback port")
		}
	}
	fe, err := newFdFront(&b.clock, addr)
	if err != nil {
		return sc.fail(err.Error())
	}
	sc.fe = fe
	fe.during = func(pl *fdPlan, n, slot int) {
		if n == 0 {
			return
		}
		rng := rand.New(rand.NewPCG(pl.Seed, uint64(slot)))
		for i := 0; i < n; i++ {
			sc.op(rng, 40, "attempt")
		}
		sc.cnt("D_changes_during_attempts", n)
	}
	sc.sb = ha.NewHASyncer(ha.SyncConfig{NodeID: fmt.Sprintf("sbyD-%d", sc.idx), Role: ha.RoleStandby, Partner: &ha.PartnerInfo{NodeID: "active", Endpoint: fe.addr()},
		RequestTimeout: 10 * time.Minute, FullSyncInterval: time.Hour, ReconnectInterval: time.Millisecond}, sc.store, logger)
	sc.sb.VerifC13SetBackoff(time.Duration(1+sc.rng.IntN(5))*time.Millisecond, 20*time.Millisecond)
	sc.snapTO = 10 * time.Minute
	if sc.timeouts {
		sc.snapTO = 400 * time.Millisecond
		sc.sb.VerifC13cSetSnapshotTimeout(sc.snapTO)
	}
	return nil
}

func (sc *fdScenario) stop() {
	if sc.sb != nil {
		sc.sb.Stop()
	}
	if sc.fe != nil {
		sc.fe.close()
	}
	if sc.base.act != nil {
		sc.base.act.Stop()
	}
}

// drawPlans: the fault plan of the next attempts. catalogue != "" fixes the snapshot fault of the
// first one (on an accepted stream), so that every run contains every kind.
func (sc *fdScenario) drawPlans(catalogue string, timeoutsLeft *int) []*fdPlan {
	rng := sc.rng
	k := []int{0, 1, 1, 2, 2, 3, 4}[rng.IntN(7)]
	if catalogue != "" && k == 0 {
		k = 1
	}
	var out []*fdPlan
	for i := 0; i < k; i++ {
		pl := &fdPlan{Stream: "accept", Snap: "valid", Seed: rng.Uint64()}
		switch x := rng.IntN(100); {
		case x < 45: // stream accepted, snapshot faulted
			pl.Snap = fdSnapFaults[rng.IntN(len(fdSnapFaults))]
		case x < 75: // stream faulted (what the snapshot would get is planned all the same)
			pl.Stream = fdStreamFaults[rng.IntN(len(fdStreamFaults))]
			if rng.IntN(2) == 0 {
				pl.Snap = fdSnapFaults[rng.IntN(len(fdSnapFaults))]
			}
		case x < 85: // both requests fine: the standby connects in the middle of the plan
		default:
			pl.Stream = fdStreamFaults[rng.IntN(len(fdStreamFaults))]
			pl.Snap = fdSnapFaults[rng.IntN(len(fdSnapFaults))]
		}
		if i == 0 && catalogue != "" {
			pl.Stream, pl.Snap = "accept", catalogue
		}
		if pl.Snap == "timeout" {
			if !sc.timeouts || *timeoutsLeft == 0 {
				pl.Snap = "503"
			} else {
				*timeoutsLeft--
			}
		}
		if rng.IntN(2) == 0 {
			pl.OpsBeforeStream = rng.IntN(3)
		}
		if rng.IntN(2) == 0 {
			pl.OpsBeforeSnap = rng.IntN(3)
		}
		if rng.IntN(2) == 0 {
			pl.OpsAfterSnap = rng.IntN(3)
		}
		out = append(out, pl)
	}
	return out
}

// awaitLink waits until the standby reports connected on a stream the front end is relaying while
// none of its requests is in progress (wall clock = watchdog only).
func (sc *fdScenario) awaitLink() error {
	deadline := time.Now().Add(60 * time.Second)
	for {
		if _, _, ok := sc.fe.quiet(); ok && sc.sb.IsConnected() {
			return nil
		}
		if time.Now().After(deadline) {
			return sc.fail(fmt.Sprintf("standby did not report connected on an accepted stream within 60 s (%d attempts seen)", len(sc.fe.attemptsCopy())))
		}
		time.Sleep(200 * time.Microsecond)
	}
}

// settle pushes sentinels until one has been applied by the standby through its present stream:
// connected before it was pushed and after it was applied, the same stream relayed all along, no
// request of the standby arrived or was in progress in between (so no full sync can have brought
// it). The timers only pace the re-pushes.
func (sc *fdScenario) settle() (*pushRec, bool, error) {
	start := time.Now()
	for try := 0; try < 14; try++ {
		st, seq, ok := sc.fe.quiet()
		if !ok || !sc.sb.IsConnected() {
			return nil, false, nil
		}
		rec := sc.sentinel()
		sc.cnt("D_sentinels_pushed", 1)
		for {
			before := sc.store.logLen()
			if _, ok := sc.store.waitPut(rec.Op, pace(try)); ok {
				st2, seq2, ok2 := sc.fe.quiet()
				if ok2 && st2 == st && seq2 == seq && sc.sb.IsConnected() {
					return rec, true, nil
				}
				return nil, false, nil
			}
			if st.ended.Load() {
				return nil, false, nil
			}
			if sc.store.logLen() == before {
				break
			}
			if time.Since(start) > 180*time.Second {
				return nil, false, sc.fail("standby still busy with a backlog after 180 s")
			}
		}
		sc.cnt("D_sentinel_repushed", 1)
	}
	return nil, false, sc.fail("no sentinel came through a stream on which the standby reports connected")
}

// converge brings the scenario to a convergence point and judges it; with planned attempts left
// (the standby connected in the middle of the plan) the stream is cut again and the rest is played.
func (sc *fdScenario) converge(ep *fdEpisode) error {
	for round := 0; ; round++ {
		if round > 24 {
			return sc.fail("no convergence point reached in 24 rounds")
		}
		if err := sc.awaitLink(); err != nil {
			return err
		}
		rec, ok, err := sc.settle()
		if err != nil {
			return err
		}
		if !ok {
			sc.cnt("D_link_lost_before_sentinel_came_through", 1)
			continue
		}
		sc.judge(ep, rec)
		if sc.fe.pending() == 0 {
			return nil
		}
		// the standby connected in the middle of the plan: a few changes, then the next outage
		for i, n := 0, sc.rng.IntN(3); i < n; i++ {
			sc.op(sc.rng, 30, "conn")
		}
		sc.outage(ep, 2)
	}
}

// outage cuts the standby's stream, keeps the standby out while changes are made on the active,
// and lets it come back.
func (sc *fdScenario) outage(ep *fdEpisode, maxAway int) {
	sc.fe.armGate()
	mode := pick(sc.rng, "clean", "abort")
	if st := sc.fe.cutLive(mode); st != nil {
		deadline := time.Now().Add(20 * time.Second)
		for !st.ended.Load() && time.Now().Before(deadline) {
			time.Sleep(100 * time.Microsecond)
		}
		sc.cnt("D_cuts_"+mode, 1)
	}
	if ep.Cut == "" {
		ep.Cut = mode
	}
	// the stream is gone and the next stream request waits at the gate; what the standby has applied
	// of the old stream by now is what it holds when the outage begins (evidence only)
	sc.tableAtCut = sc.store.table()
	n := sc.rng.IntN(maxAway + 1)
	for i := 0; i < n; i++ {
		sc.op(sc.rng, 50, "away") // while the standby is away deletions are frequent
	}
	ep.Away += n
	sc.fe.releaseGate()
}

func (sc *fdScenario) countAttempts(final bool) (since []fdAttempt) {
	atts := sc.fe.attemptsCopy()
	upto := len(atts)
	since = atts[sc.counted:upto]
	for i, a := range since {
		sc.cnt("D_attempts", 1)
		sc.cnt("D_attempt_"+a.combo(), 1)
		if a.Plan == nil {
			sc.cnt("D_attempts_unplanned", 1)
		}
		switch {
		case a.streamOK() && a.Snap != "valid" && a.Snap != "":
			sc.cnt("D_attempts_stream_accepted_snapshot_faulted", 1)
			if sc.counted+i < len(atts)-1 {
				sc.cnt("D_failed_snapshot_followed_by_new_attempt", 1)
			} else if !final {
				sc.cnt("D_failed_snapshot_followed_by_connected_report", 1)
			}
		case !a.streamOK():
			sc.cnt("D_attempts_stream_faulted", 1)
			if a.Snap != "" {
				sc.cnt("D_snapshot_requested_although_stream_request_failed", 1)
			}
		case a.Stream == "accept-cut":
			sc.cnt("D_attempts_stream_ended_during_snapshot", 1)
		default:
			sc.cnt("D_attempts_clean", 1)
		}
	}
	sc.counted = upto
	return since
}

// judge is the convergence clause at one point: the standby reports connected, a sentinel pushed
// after every other change has come through its present stream, nobody is changing the active.
func (sc *fdScenario) judge(ep *fdEpisode, sent *pushRec) {
	b := sc.base
	got := sc.store.table()
	b.mu.Lock()
	want := b.model.clone()
	b.mu.Unlock()
	if act := b.actStore.table(); len(diffTables(act, want)) > 0 {
		harnessFailed.Store(true)
		fmt.Printf("layer D: harness model %s differs from the active's store %s\n", want, act)
	}
	since := sc.countAttempts(false)
	pt := &fdPoint{Episode: ep.N, OwnerAttempt: -1, SentinelOp: sent.Op, StandbyTable: got.String(), ActiveTable: want.String(), TableAtCut: sc.tableAtCut.String()}
	_, pt.RequestsByThen, _ = sc.fe.quiet()
	faulted, snapFaulted := false, false
	var seq []string
	for _, a := range since {
		pt.Attempts = append(pt.Attempts, a.combo())
		seq = append(seq, a.combo())
		if a.faulted() {
			faulted = true
		}
		if a.streamOK() && a.Snap != "valid" && a.Snap != "" {
			snapFaulted = true
		}
	}
	ownerKnown := false
	if st, _, ok := sc.fe.quiet(); ok {
		for _, a := range sc.fe.attemptsCopy() {
			if a.N == st.attempt {
				pt.OwnerAttempt, pt.OwnerGotSnap, ownerKnown = a.N, a.SnapDelivered, true
			}
		}
	}
	if len(since) > 0 {
		wantNoSent, atCut := want.clone(), sc.tableAtCut.clone()
		delete(wantNoSent, "sentinel")
		delete(atCut, "sentinel")
		pt.NeededResync = len(diffTables(atCut, wantNoSent)) > 0
	}
	ds := diffTables(got, want)
	pt.Equal = len(ds) == 0
	sc.points = append(sc.points, pt)
	ep.Points++
	sc.cnt("D_convergence_points_judged", 1)
	switch {
	case len(since) == 0:
		sc.cnt("D_convergence_points_on_a_connection_already_judged", 1)
	case faulted:
		sc.cnt("D_convergence_points_after_faulted_attempt", 1)
		sc.nFaultedPt++
		if len(since) >= 3 {
			sc.cnt("D_convergence_points_after_3_or_more_consecutive_attempts", 1)
		}
	default:
		sc.cnt("D_convergence_points_after_clean_reconnect", 1)
	}
	if snapFaulted {
		sc.cnt("D_convergence_points_after_faulted_snapshot", 1)
	}
	if pt.NeededResync {
		sc.cnt("D_convergence_points_where_reconnect_had_changes_to_bring_over", 1)
		if faulted {
			sc.cnt("D_convergence_points_after_faulted_attempt_with_changes_to_bring_over", 1)
			sc.nNeeded++
		}
	}
	if len(seq) > 0 {
		col.Distinct("D_attempt_sequences_before_a_convergence_point", strings.Join(seq, " "))
		for _, c := range seq {
			col.Distinct("D_attempt_fault_combinations", c)
		}
		sc.sig = append(sc.sig, "["+strings.Join(seq, " ")+fmt.Sprintf(" resync=%v eq=%v]", pt.NeededResync, pt.Equal))
	}
	if pt.Equal {
		sc.cnt("D_convergence_points_equal", 1)
		return
	}
	kinds := strings.Join(diffKinds(ds), "+")
	wit := map[string]any{"scenario": sc.describe(), "point": pt, "differences": ds}
	if ownerKnown && !pt.OwnerGotSnap {
		violation(sc.size(), compConnect, ruleConv, "reports-connected-without-having-obtained-the-snapshot",
			fmt.Sprintf("layer D scenario %d: the standby reports IsConnected()==true on the stream of its connection attempt #%d, whose snapshot request (GET /ha/sessions) the front end answered with %q (no complete snapshot was handed over on that attempt); the active is quiet and a sentinel pushed afterwards (op %d) came through that stream, yet standby %s != active %s (%s); attempts since the previous convergence point: %s; the standby's table when its previous stream was cut: %s",
				sc.idx, pt.OwnerAttempt, sc.attemptSnap(pt.OwnerAttempt), sent.Op, got, want, kinds, strings.Join(seq, " "), sc.tableAtCut), wit)
		return
	}
	cls := "unexplained:" + kinds
	if faulted {
		cls = "after-faulted-connection-attempts:" + kinds
	}
	violation(sc.size(), compLoop, ruleConv, cls,
		fmt.Sprintf("layer D scenario %d: the standby reports IsConnected()==true (stream of attempt #%d, complete snapshot handed over on it: %v), the active is quiet and a sentinel pushed afterwards (op %d) came through that stream, yet standby %s != active %s; attempts since the previous convergence point: %s; the standby's table when its previous stream was cut: %s",
			sc.idx, pt.OwnerAttempt, pt.OwnerGotSnap, sent.Op, got, want, strings.Join(seq, " "), sc.tableAtCut), wit)
}

func (sc *fdScenario) attemptSnap(n int) string {
	for _, a := range sc.fe.attemptsCopy() {
		if a.N == n {
			if a.Snap == "" {
				return "(no snapshot request seen)"
			}
			return a.Snap
		}
	}
	return "?"
}

func (sc *fdScenario) run() error {
	rng := sc.rng
	if err := sc.start(); err != nil {
		return err
	}
	nEp := 2 + rng.IntN(run.Pick(3, 4))
	timeoutsLeft := 2
	for e := 0; e < nEp; e++ {
		ep := &fdEpisode{N: e}
		sc.episodes = append(sc.episodes, ep)
		cat := ""
		if e == 1 { // the first reconnect: the standby holds a table that has gone stale
			cat = fdSnapFaults[sc.idx%len(fdSnapFaults)]
		}
		ep.Plans = sc.drawPlans(cat, &timeoutsLeft)
		if left := sc.fe.load(ep.Plans); left > 0 {
			sc.cnt("D_planned_attempts_never_played", left)
		}
		sc.cnt("D_planned_attempts", len(ep.Plans))
		if e == 0 {
			if err := sc.sb.Start(); err != nil {
				return sc.fail(err.Error())
			}
		} else {
			sc.outage(ep, 4)
		}
		if err := sc.converge(ep); err != nil {
			return err
		}
		// connected: changes on the live stream, judged again on the same connection
		n := 1 + rng.IntN(5)
		if rng.IntN(5) == 0 {
			n = 20 + rng.IntN(40)
		}
		for i := 0; i < n; i++ {
			sc.op(rng, 30, "conn")
		}
		if err := sc.converge(ep); err != nil {
			return err
		}
	}
	sc.countAttempts(true)
	sc.fe.mu.Lock()
	sc.cnt("D_snapshot_requests_abandoned_by_standby_before_front_end_handled_them", sc.fe.stale)
	sc.fe.mu.Unlock()
	return nil
}

// ---------------------------------------------------------------- test entry

func TestLayerD(t *testing.T) {
	if child {
		layerDChild(t)
		return
	}
	t.Parallel()
	id := wdEnter("layer D")
	defer wdLeave(id)
	spawnChildren(t, "TestLayerD", "D", run.Pick(72, 900), run.Pick(2, 4))
}

func layerDChild(t *testing.T) {
	id := wdEnter("layer D child")
	defer wdLeave(id)
	var lo, hi int
	if _, err := fmt.Sscanf(os.Getenv("VERIF_C13_RANGE"), "%d:%d", &lo, &hi); err != nil {
		t.Fatal("VERIF_C13_RANGE: ", err)
	}
	workers := 4
	var wg sync.WaitGroup
	next := int64(lo - 1)
	var sampled atomic.Int64
	for w := 0; w < workers; w++ {
		wg.Add(1)
		go func() {
			defer wg.Done()
			for {
				i := int(atomic.AddInt64(&next, 1))
				if i >= hi {
					return
				}
				sc := newFdScenario(i)
				err := sc.run()
				sc.stop()
				for k, v := range sc.base.counts {
					col.Count(k, v)
				}
				if err != nil {
					col.Inconclusive(fmt.Sprintf("layerD-%d", i), err.Error())
					col.Count("D_scenarios_inconclusive", 1)
					continue
				}
				col.Eval()
				col.Count("D_scenarios", 1)
				if sc.timeouts {
					col.Count("D_scenarios_with_short_snapshot_timeout", 1)
				}
				for _, p := range sc.base.pushes {
					col.Count("D_push_"+p.Type+"_"+p.Phase, 1)
				}
				sig := strings.Join(sc.sig, "")
				col.Distinct("D_scenario_signatures", sig)
				if sc.nNeeded > 0 {
					col.Nontrivial("D|" + sig)
				}
				if sc.nFaultedPt > 1 && sampled.Add(1) <= 1 {
					col.Sample(sc.describe())
				}
			}
		}()
	}
	wg.Wait()
}
