package c13

import (
	"fmt"
	"io"
	"math/rand/v2"
	"net/http"
	"os"
	"sort"
	"strconv"
	"strings"
	"sync"
	"sync/atomic"
	"testing"
	"time"

	"github.com/codelaboratoryltd/bng/pkg/ha"
	"go.uber.org/zap"
	"go.uber.org/zap/zapcore"
	"go.uber.org/zap/zaptest/observer"
)

// ---------------------------------------------------------------- layer E: snapshots that overlap the live stream
//
// Layers B-D run the standby with FullSyncInterval = 1 h and look at the snapshot only as part of
// a connection attempt. A snapshot (GET /ha/sessions) is a picture of the active's table at the
// moment the active built the response; it reaches the standby later, and on a slow or loaded link
// much later. Whatever the standby does with it -- at connect time, or periodically while the
// stream is up (the FullSyncInterval knob) -- changes pushed over the stream after the picture was
// taken are newer than the picture.
//
// Layer E starts a real standby through Start() with FullSyncInterval 8 ms / 20 ms / 50 ms /
// 120 ms / the default 5 min (and 0 = "disabled" in a child process of its own), behind the layer-D
// front end whose snapshot side is replaced: every snapshot request of the standby, whenever it is
// made, is an exchange the driver can hold before it is forwarded to the active (changes made now
// are in the picture) and after the active built the response (changes made now are not; the
// driver waits until the standby has applied them from the stream when the stream is being read),
// and then hand over. Exchanges are handed over one at a time, and the front end waits for the
// standby's own statistics (Stats().LastSyncTime) to say that the full sync completed, so that a
// convergence point is never judged with a picture still on its way.
//
// Oracle: unchanged. (ii) on a connected stream with no snapshot handed over in between, the
// standby's store log between two sentinels is exactly the pushes, in push order; with snapshots in
// between, no push is missing from it. (iii) link up (IsConnected() on a relayed stream), active
// quiet (a sentinel pushed after every other change came through that stream), no snapshot
// forwarded to the active and not yet applied => tables equal. Snapshot requests the standby makes
// after the active went quiet are kept waiting (not forwarded) while the point is judged: they
// carry nothing, and a link may be that slow.

// feExch is one snapshot exchange as the front end saw it.
type feExch struct {
	N           int    `json:"request"`
	Kind        string `json:"kind"` // connect-time | mid-stream (the standby reported connected on a relayed stream when it arrived)
	Held        bool   `json:"held_by_a_harness_window"`
	ArrivedAt   int64  `json:"arrived_stamp"`
	ForwardedAt int64  `json:"forwarded_to_active_stamp,omitempty"`
	BuiltAt     int64  `json:"snapshot_built_stamp,omitempty"`
	DeliveredAt int64  `json:"handed_to_standby_stamp,omitempty"`
	Snapshot    string `json:"snapshot,omitempty"`
	Outcome     string `json:"outcome"`

	snap table
	win  *feWindow
}

// feWindow is the driver's handle on one held exchange.
type feWindow struct {
	arrived chan struct{} // closed by the front end: a request took the window (ex is set)
	forward chan struct{} // closed by the driver: forward it to the active
	built   chan struct{} // closed by the front end: the active's response is here
	release chan struct{} // closed by the driver: hand it to the standby
	done    chan struct{} // closed by the front end: the exchange is over
	ex      *feExch
}

type feFront struct {
	fd *fdFront

	mu        sync.Mutex
	sb        *ha.HASyncer
	hold      bool // requests that are not taken by a window wait (not forwarded)
	win       *feWindow
	free      *feExch // the exchange in progress that no window holds
	changed   chan struct{}
	exch      []*feExch
	started   int // exchanges that got their turn
	delivered int // complete snapshots handed to the standby
	unknown   int // handed over, completion of the full sync not observed
	nMid      int // requests that arrived while the standby reported connected on a relayed stream
	nMidDeliv int // of those: complete snapshots handed to the standby
}

func newFeFront(clock *int64, upstream string) (*feFront, error) {
	f := &feFront{changed: make(chan struct{})}
	fd, err := newFdFrontSnap(clock, upstream, f.serveSnap)
	if err != nil {
		return nil, err
	}
	f.mu.Lock()
	f.fd = fd
	f.mu.Unlock()
	return f, nil
}

func (f *feFront) broadcastLocked() {
	close(f.changed)
	f.changed = make(chan struct{})
}

func (f *feFront) setStandby(sb *ha.HASyncer) { f.mu.Lock(); f.sb = sb; f.mu.Unlock() }

func (f *feFront) setHold(on bool) {
	f.mu.Lock()
	f.hold = on
	f.broadcastLocked()
	f.mu.Unlock()
}

// arm: the next snapshot request is held for the driver; everything else waits.
func (f *feFront) arm() *feWindow {
	w := &feWindow{arrived: make(chan struct{}), forward: make(chan struct{}), built: make(chan struct{}), release: make(chan struct{}), done: make(chan struct{})}
	f.mu.Lock()
	f.hold = true
	f.win = w
	f.broadcastLocked()
	f.mu.Unlock()
	return w
}

// disarm withdraws a window no request has taken; false: a request took it meanwhile.
func (f *feFront) disarm(w *feWindow) bool {
	f.mu.Lock()
	defer f.mu.Unlock()
	if w.ex != nil {
		return false
	}
	if f.win == w {
		f.win = nil
	}
	return true
}

func (f *feFront) closeWindow(w *feWindow) {
	f.mu.Lock()
	if f.win == w {
		f.win = nil
	}
	f.mu.Unlock()
}

type feState struct{ started, delivered, unknown, nMid, nMidDeliv, seen int }

func (f *feFront) state() feState {
	f.mu.Lock()
	defer f.mu.Unlock()
	return feState{f.started, f.delivered, f.unknown, f.nMid, f.nMidDeliv, len(f.exch)}
}

// waitIdle waits until no exchange outside a window is in progress (wall clock = watchdog only).
func (f *feFront) waitIdle(d time.Duration) bool {
	deadline := time.Now().Add(d)
	for {
		f.mu.Lock()
		idle := f.free == nil
		f.mu.Unlock()
		if idle {
			return true
		}
		if time.Now().After(deadline) {
			return false
		}
		time.Sleep(200 * time.Microsecond)
	}
}

func (f *feFront) exchCopy(last int) []feExch {
	f.mu.Lock()
	defer f.mu.Unlock()
	e := f.exch
	if len(e) > last {
		e = e[len(e)-last:]
	}
	out := make([]feExch, len(e))
	for i, x := range e {
		out[i] = *x
		out[i].win, out[i].snap = nil, nil
	}
	return out
}

func (f *feFront) serveSnap(fd *fdFront, w http.ResponseWriter, r *http.Request) {
	_, _, linked := fd.quiet()
	f.mu.Lock()
	sb := f.sb
	f.mu.Unlock()
	kind := "connect-time"
	if linked && sb != nil && sb.IsConnected() {
		kind = "mid-stream"
	}
	f.mu.Lock()
	ex := &feExch{N: len(f.exch), Kind: kind, ArrivedAt: fd.stamp(), Outcome: "queued"}
	f.exch = append(f.exch, ex)
	if kind == "mid-stream" {
		f.nMid++
	}
	for {
		if f.free == nil {
			if f.win != nil && f.win.ex == nil {
				f.win.ex, ex.win, ex.Held = ex, f.win, true
				break
			}
			if !f.hold {
				f.free = ex
				break
			}
		}
		ch := f.changed
		f.mu.Unlock()
		gone := false
		select {
		case <-ch:
		case <-r.Context().Done():
			gone = true
		case <-fd.closed:
			gone = true
		}
		f.mu.Lock()
		if gone {
			ex.Outcome = "abandoned-by-standby-while-queued"
			f.mu.Unlock()
			panic(http.ErrAbortHandler)
		}
	}
	f.started++
	ex.Outcome = "in-progress"
	win := ex.win
	f.mu.Unlock()

	outcome := "abandoned-by-standby"
	defer func() {
		f.mu.Lock()
		ex.Outcome = outcome
		if f.free == ex {
			f.free = nil
		}
		f.broadcastLocked()
		f.mu.Unlock()
		if win != nil {
			close(win.done)
		}
	}()
	wait := func(ch <-chan struct{}) bool {
		select {
		case <-ch:
			return true
		case <-r.Context().Done():
		case <-fd.closed:
		}
		return false
	}
	if win != nil {
		close(win.arrived)
		if !wait(win.forward) {
			panic(http.ErrAbortHandler)
		}
	}
	f.mu.Lock()
	ex.ForwardedAt = fd.stamp()
	f.mu.Unlock()
	req, _ := http.NewRequestWithContext(r.Context(), "GET", "http://"+fd.upstream+"/ha/sessions", nil)
	resp, err := fd.cl.Do(req)
	if err != nil {
		if r.Context().Err() == nil {
			outcome = "upstream-error"
			http.Error(w, err.Error(), http.StatusBadGateway)
		}
		return
	}
	body, err := io.ReadAll(resp.Body)
	resp.Body.Close()
	if err != nil || resp.StatusCode != 200 {
		outcome = "upstream-error"
		http.Error(w, "upstream", http.StatusBadGateway)
		return
	}
	snap := table{}
	if msg, err := ha.DecodeSyncMessage(body); err == nil {
		snap = tableOf(msg.Sessions)
	}
	f.mu.Lock()
	ex.BuiltAt, ex.snap, ex.Snapshot = fd.stamp(), snap, snap.String()
	f.mu.Unlock()
	if win != nil {
		close(win.built)
		if !wait(win.release) {
			panic(http.ErrAbortHandler)
		}
	}
	if r.Context().Err() != nil {
		panic(http.ErrAbortHandler)
	}
	t0 := time.Now()
	w.Header().Set("Content-Type", resp.Header.Get("Content-Type"))
	w.Header().Set("Content-Length", strconv.Itoa(len(body)))
	_, err = w.Write(body)
	if fl, ok := w.(http.Flusher); ok {
		fl.Flush()
	}
	if err != nil {
		return
	}
	f.mu.Lock()
	ex.DeliveredAt = fd.stamp()
	f.delivered++
	if kind == "mid-stream" {
		f.nMidDeliv++
	}
	f.mu.Unlock()
	// sequencing only: the standby's own statistics say when this full sync completed
	deadline := t0.Add(15 * time.Second)
	for {
		if sb != nil && sb.Stats().LastSyncTime.After(t0) {
			outcome = "applied"
			return
		}
		select {
		case <-fd.closed:
			outcome = "handed-over-completion-not-observed"
			return
		default:
		}
		if time.Now().After(deadline) {
			outcome = "handed-over-completion-not-observed"
			f.mu.Lock()
			f.unknown++
			f.mu.Unlock()
			return
		}
		time.Sleep(200 * time.Microsecond)
	}
}

// ---------------------------------------------------------------- scripts: what changes on the active while a snapshot is held

// feSpec is one change: Kind add | update | delete | any; Target snap (a session of the held
// snapshot) | other (for add: a session that does not exist) | same (the session of the previous
// change) | any.
type feSpec struct{ Kind, Target string }

type feScript struct {
	Name         string
	Pre, Post    []feSpec // before the request is forwarded to the active / after the active built the response
	Random       bool
	CutWhileHeld bool // the stream is cut and the standby reconnects while the response is held
}

var feCatalogue = []feScript{
	{Name: "update-of-a-snapshot-session", Post: []feSpec{{"update", "snap"}}},
	{Name: "add-of-a-session-absent-from-snapshot", Post: []feSpec{{"add", "other"}}},
	{Name: "delete-of-a-snapshot-session", Post: []feSpec{{"delete", "snap"}}},
	{Name: "delete-and-re-add", Post: []feSpec{{"delete", "snap"}, {"add", "same"}}},
	{Name: "three-updates-of-one-session", Post: []feSpec{{"update", "snap"}, {"update", "same"}, {"update", "same"}}},
	{Name: "changes-before-the-snapshot-is-built-only", Pre: []feSpec{{"update", "any"}, {"any", "any"}}},
	{Name: "mixed-before-and-after", Pre: []feSpec{{"any", "any"}}, Post: []feSpec{{"update", "snap"}, {"delete", "snap"}, {"add", "other"}}},
	{Name: "random", Random: true},
	{Name: "no-change-while-held"},
	{Name: "stream-cut-and-reconnect-while-held", Post: []feSpec{{"update", "snap"}, {"add", "other"}}, CutWhileHeld: true},
	{Name: "add-then-update-of-the-new-session", Post: []feSpec{{"add", "other"}, {"update", "same"}, {"update", "snap"}}},
}

// feWinRec is what happened in one window (witness and evidence).
type feWinRec struct {
	Episode        int      `json:"episode"`
	Where          string   `json:"where"` // connect-time | mid-stream
	Script         string   `json:"script"`
	RequestSeen    bool     `json:"snapshot_request_arrived"`
	Request        int      `json:"request,omitempty"`
	Snapshot       string   `json:"snapshot_built,omitempty"`
	Pre            []string `json:"changes_before_request_was_forwarded,omitempty"`
	Post           []string `json:"changes_after_active_built_the_response,omitempty"`
	PostApplied    bool     `json:"those_changes_applied_by_standby_from_stream_before_release"`
	StandbyAtRel   string   `json:"standby_table_when_response_was_released,omitempty"`
	CutWhileHeld   bool     `json:"stream_cut_and_reconnected_while_held,omitempty"`
	Outcome        string   `json:"outcome,omitempty"`
	StandbyAfter   string   `json:"standby_table_after_that_full_sync,omitempty"`
	touched        map[string]bool
	midReqsAtStart int
}

type fePoint struct {
	Episode     int    `json:"episode"`
	After       string `json:"after"`
	Equal       bool   `json:"tables_equal"`
	SentinelOp  uint64 `json:"sentinel_op"`
	Standby     string `json:"standby_table"`
	Active      string `json:"active_table"`
	Segment     string `json:"push_order_clause"` // exact | no-loss | not-judged
	MidRequests int    `json:"mid_stream_snapshot_requests_seen_so_far"`
}

type feScenario struct {
	idx      int
	rng      *rand.Rand
	base     *scenario
	fe       *feFront
	sb       *ha.HASyncer
	store    *recStore
	interval time.Duration
	ivName   string

	opMu    sync.Mutex
	wins    []*feWinRec
	points  []*fePoint
	nWin    int
	sig     []string
	nHeldPt int // points judged after a held snapshot whose window contained a change

	lastSt        *fdStream // stream of the previous judged point
	lastStamp     int64     // store stamp of that point's sentinel
	lastPush      int       // index of that sentinel in base.pushes
	lastDelivered int
	unknownSeen   int
	midSeen       int
	lastDiff      map[string]string // differences reported at the previous point: session -> kind|what the standby held

	fEps []*ffEpisode // layer F (layerf_test.go): the episodes played so far
	fctx *ffEpisode   // layer F: the point being judged follows the quiet resyncs of this episode
}

func (sc *feScenario) cnt(k string, n int) { sc.base.cnt(k, n) }
func (sc *feScenario) size() int           { return 300 + int(sc.base.nPush.Load()) }
func (sc *feScenario) fail(reason string) error {
	return fmt.Errorf("%w: %s", errInconclusive, reason)
}

var feIntervals = []struct {
	d    time.Duration
	name string
}{{8 * time.Millisecond, "8ms"}, {20 * time.Millisecond, "20ms"}, {5 * time.Minute, "default-5m"}, {50 * time.Millisecond, "50ms"}, {120 * time.Millisecond, "120ms"}, {20 * time.Millisecond, "20ms"}}

func newFeScenario(i int, zero bool) *feScenario {
	rng := run.SubRand("E", i)
	b := &scenario{idx: i, rng: rng, sentRng: run.SubRand("E-sentinel", i), model: table{}, byOp: map[uint64]*pushRec{}, lastOn: map[string]*pushRec{}, counts: map[string]int{}, pushers: 1}
	b.phase.Store("pre")
	nIDs := 3 + rng.IntN(3)
	b.ids = [][]string{nil}
	for k := 0; k < nIDs; k++ {
		b.ids[0] = append(b.ids[0], fmt.Sprintf("s%d", k))
	}
	sc := &feScenario{idx: i, rng: rng, base: b}
	iv := feIntervals[i%len(feIntervals)]
	sc.interval, sc.ivName = iv.d, iv.name
	if zero {
		sc.interval, sc.ivName = 0, "0-disabled"
	}
	return sc
}

func (sc *feScenario) describe() map[string]any {
	wins := make([]feWinRec, len(sc.wins))
	for i, w := range sc.wins {
		wins[i] = *w
	}
	if len(wins) > 16 {
		wins = wins[len(wins)-16:]
	}
	pts := sc.points
	if len(pts) > 12 {
		pts = pts[len(pts)-12:]
	}
	if sc.fEps != nil {
		return sc.describeF(wins, pts)
	}
	return map[string]any{"layer": "E", "scenario": sc.idx, "seed": run.Seed, "full_sync_interval_of_standby": sc.ivName, "heartbeat_interval": sc.base.hb.String(),
		"windows": wins, "snapshot_requests_seen_by_front_end": sc.fe.exchCopy(30), "convergence_points": pts, "last_changes_on_active": sc.base.pushTail(30),
		"legend": "a real standby (Start(), FullSyncInterval as given) behind a front end that hands over snapshot responses one at a time; in a window the driver holds one snapshot request before it is forwarded to the active (changes made then are in the snapshot) and after the active built the response (changes made then are not: the driver pushes them and, when the standby is reading the stream, waits until it has applied them), then releases the response; mid-stream = the request arrived while the standby reported connected on a relayed stream. At a convergence point the standby reports connected, a sentinel pushed after every other change has come through its stream, every snapshot that was forwarded to the active has been applied, later snapshot requests are kept waiting."}
}

func (sc *feScenario) start() error {
	b := sc.base
	core, logs := observer.New(zapcore.WarnLevel)
	b.logs = logs
	logger := zap.New(core)
	b.actStore = newRecStore(&b.clock)
	sc.store = newRecStore(&b.clock)
	b.hb = pick(sc.rng, 5*time.Millisecond, 10*time.Millisecond, 20*time.Millisecond, 100*time.Millisecond)
	for i, n := 0, 1+sc.rng.IntN(3); i < n; i++ {
		sid := b.ids[0][i%len(b.ids[0])]
		if _, ok := b.model[sid]; ok {
			continue
		}
		b.nextOp++
		s := newSession(sid, b.nextOp, sc.rng)
		b.actStore.inner.PutSession(&s)
		b.model[sid] = s
	}
	var addr string
	for try := 0; ; try++ {
		a, err := freePort()
		if err != nil {
			return sc.fail(err.Error())
		}
		node := fmt.Sprintf("actE-%d-%d", sc.idx, try)
		b.act = ha.NewHASyncer(ha.SyncConfig{NodeID: node, Role: ha.RoleActive, ListenAddr: a, HeartbeatInterval: b.hb, RequestTimeout: 10 * time.Minute}, b.actStore, logger)
		if err := b.act.Start(); err != nil {
			return sc.fail(err.Error())
		}
		if waitHealthy(a, node) {
			addr = a
			break
		}
		b.act.Stop()
		if try == 5 {
			return sc.fail("active did not come up on a free loopback port")
		}
	}
	fe, err := newFeFront(&b.clock, addr)
	if err != nil {
		return sc.fail(err.Error())
	}
	sc.fe = fe
	sc.sb = ha.NewHASyncer(ha.SyncConfig{NodeID: fmt.Sprintf("sbyE-%d", sc.idx), Role: ha.RoleStandby, Partner: &ha.PartnerInfo{NodeID: "active", Endpoint: fe.fd.addr()},
		RequestTimeout: 10 * time.Minute, FullSyncInterval: sc.interval, ReconnectInterval: time.Millisecond}, sc.store, logger)
	sc.sb.VerifC13SetBackoff(time.Duration(1+sc.rng.IntN(5))*time.Millisecond, 20*time.Millisecond)
	fe.setStandby(sc.sb)
	return nil
}

func (sc *feScenario) stop() {
	if sc.sb != nil {
		sc.sb.Stop()
	}
	if sc.fe != nil && sc.fe.fd != nil {
		sc.fe.fd.close()
	}
	if sc.base.act != nil {
		sc.base.act.Stop()
	}
}

// change makes one change on the active as specified; prev is the session of the previous change.
func (sc *feScenario) change(spec feSpec, snap table, prev, phase string) *pushRec {
	b := sc.base
	sc.opMu.Lock()
	defer sc.opMu.Unlock()
	b.phase.Store(phase)
	b.mu.Lock()
	var in, out, inSnap []string
	for _, id := range b.ids[0] {
		if _, ok := b.model[id]; ok {
			in = append(in, id)
			if _, ok := snap[id]; ok {
				inSnap = append(inSnap, id)
			}
		} else {
			out = append(out, id)
		}
	}
	b.mu.Unlock()
	rng := sc.rng
	choose := func(xs []string) string {
		if len(xs) == 0 {
			return ""
		}
		return xs[rng.IntN(len(xs))]
	}
	sid := ""
	switch {
	case spec.Target == "same" && prev != "":
		sid = prev
	case spec.Kind == "add":
		sid = choose(out)
	case spec.Target == "snap":
		if sid = choose(inSnap); sid == "" {
			sid = choose(in)
		}
	case spec.Kind == "update" || spec.Kind == "delete":
		sid = choose(in)
	}
	if sid == "" { // nothing fits (or "any"): a random valid change
		return b.doOp(0, rng, 35)
	}
	kind := spec.Kind
	if kind == "any" {
		kind = ""
	}
	return b.doOpOn(0, rng, sid, kind, 35)
}

func (sc *feScenario) changes(specs []feSpec, snap table, phase string, touched map[string]bool) []string {
	var out []string
	prev := ""
	for _, sp := range specs {
		rec := sc.change(sp, snap, prev, phase)
		prev = rec.SID
		touched[rec.SID] = true
		out = append(out, fmt.Sprintf("%s %s@%d", rec.Type, rec.SID, rec.Op))
	}
	return out
}

func (sc *feScenario) sentinel() *pushRec {
	sc.opMu.Lock()
	defer sc.opMu.Unlock()
	sc.base.phase.Store("conn")
	return sc.base.sentinel()
}

func (sc *feScenario) linkUp() (*fdStream, bool) {
	st, _, ok := sc.fe.fd.quiet()
	return st, ok && sc.sb.IsConnected()
}

func (sc *feScenario) awaitLink() error {
	deadline := time.Now().Add(60 * time.Second)
	for {
		if _, ok := sc.linkUp(); ok {
			return nil
		}
		if time.Now().After(deadline) {
			return sc.fail("standby did not report connected on a relayed stream within 60 s")
		}
		time.Sleep(200 * time.Microsecond)
	}
}

// streamed pushes a sentinel behind the changes just made and waits until the standby has applied
// it from its stream (FIFO: then it has applied them too). false: the standby is not applying
// stream changes now (pacing only, never a verdict).
func (sc *feScenario) streamed() bool {
	st, ok := sc.linkUp()
	if !ok {
		return false
	}
	for try := 0; try < 5; try++ {
		rec := sc.sentinel()
		sc.cnt("E_sentinels_pushed", 1)
		for {
			before := sc.store.logLen()
			if _, ok := sc.store.waitPut(rec.Op, pace(try)); ok {
				return true
			}
			if st.ended.Load() {
				return false
			}
			if sc.store.logLen() == before {
				break
			}
		}
	}
	return false
}

// script resolves the catalogue entry of a window.
func (sc *feScenario) script() feScript {
	s := feCatalogue[(sc.idx*3+sc.nWin)%len(feCatalogue)]
	sc.nWin++
	if s.Random {
		s.Pre, s.Post = nil, nil
		for i, n := 0, sc.rng.IntN(4); i < n; i++ {
			s.Pre = append(s.Pre, feSpec{"any", "any"})
		}
		for i, n := 0, sc.rng.IntN(5); i < n; i++ {
			s.Post = append(s.Post, feSpec{pick(sc.rng, "any", "update", "delete", "add"), pick(sc.rng, "snap", "any", "other")})
		}
	}
	return s
}

// window plays one window that has been armed: w is taken by the next snapshot request of the
// standby (the connect-time one, or one it makes while the stream is up). waitFor bounds how long
// a request is waited for; none arriving is a fact about the standby, not a failure.
func (sc *feScenario) window(ep int, w *feWindow, s feScript, where string, waitFor time.Duration) (*feWinRec, error) {
	rec := &feWinRec{Episode: ep, Where: where, Script: s.Name, touched: map[string]bool{}}
	sc.wins = append(sc.wins, rec)
	sc.cnt("E_windows_armed_"+where, 1)
	arrived := false
	tm := time.NewTimer(waitFor)
	select {
	case <-w.arrived:
		arrived = true
	case <-tm.C:
		arrived = !sc.fe.disarm(w)
	}
	tm.Stop()
	if !arrived {
		// no snapshot request in this window: the changes are made all the same, on the stream
		sc.cnt("E_windows_"+where+"_no_snapshot_request_arrived", 1)
		sc.fe.setHold(false)
		model := sc.modelCopy()
		rec.Pre = sc.changes(s.Pre, model, "conn", rec.touched)
		rec.Post = sc.changes(s.Post, model, "conn", rec.touched)
		if s.CutWhileHeld {
			sc.outage(ep, 2, false)
			if err := sc.awaitLink(); err != nil {
				return rec, err
			}
		}
		rec.Outcome = "no-request"
		return rec, nil
	}
	<-w.arrived
	ex := w.ex
	rec.RequestSeen, rec.Request = true, ex.N
	if ex.Kind != where {
		rec.Where = ex.Kind
		where = ex.Kind
	}
	sc.cnt("E_windows_"+where+"_snapshot_request_held", 1)
	rec.Pre = sc.changes(s.Pre, sc.modelCopy(), "held-before-forward", rec.touched)
	sc.cnt("E_changes_while_request_held_before_forward", len(rec.Pre))
	close(w.forward)
	t := time.NewTimer(60 * time.Second)
	defer t.Stop()
	select {
	case <-w.built:
	case <-w.done:
		sc.fe.closeWindow(w)
		sc.fe.setHold(false)
		rec.Outcome = sc.exchOutcome(ex)
		sc.cnt("E_windows_exchange_failed_before_snapshot_was_built", 1)
		return rec, nil
	case <-t.C:
		sc.fe.closeWindow(w)
		sc.fe.setHold(false)
		return rec, sc.fail("the active did not answer a forwarded snapshot request within 60 s")
	}
	sc.fe.mu.Lock()
	snap := ex.snap.clone()
	sc.fe.mu.Unlock()
	rec.Snapshot = snap.String()
	rec.Post = sc.changes(s.Post, snap, "held-after-build", rec.touched)
	sc.cnt("E_changes_between_snapshot_built_and_handed_over", len(rec.Post))
	if where == "mid-stream" && len(rec.Post) > 0 {
		rec.PostApplied = sc.streamed()
		if rec.PostApplied {
			sc.cnt("E_windows_mid_stream_changes_applied_from_stream_before_release", 1)
		} else {
			sc.cnt("E_windows_mid_stream_stream_not_applied_while_snapshot_pending", 1)
		}
	}
	if s.CutWhileHeld && where == "mid-stream" {
		// the stream goes away and comes back while the response is still on its way
		rec.CutWhileHeld = true
		sc.fe.setHold(false)
		sc.outage(ep, 2, false)
		if err := sc.awaitLink(); err != nil {
			close(w.release)
			sc.fe.closeWindow(w)
			return rec, err
		}
		sc.fe.setHold(true)
		sc.fe.waitIdle(20 * time.Second)
		sc.cnt("E_windows_stream_cut_and_reconnected_while_snapshot_held", 1)
	}
	rec.StandbyAtRel = sc.store.table().String()
	close(w.release)
	t2 := time.NewTimer(60 * time.Second)
	defer t2.Stop()
	select {
	case <-w.done:
	case <-t2.C:
		sc.fe.closeWindow(w)
		sc.fe.setHold(false)
		return rec, sc.fail("a released snapshot exchange did not finish within 60 s")
	}
	sc.fe.closeWindow(w)
	rec.Outcome = sc.exchOutcome(ex)
	rec.StandbyAfter = sc.store.table().String()
	k := strconv.Itoa(len(rec.Post))
	if len(rec.Post) >= 3 {
		k = "3+"
	}
	sc.cnt(fmt.Sprintf("E_held_%s_snapshots_handed_over_after_%s_changes", strings.ReplaceAll(where, "-", "_"), k), 1)
	if len(rec.Post) > 0 {
		sc.cnt("E_held_snapshots_handed_over_after_changes_it_does_not_contain", 1)
	}
	col.Distinct("E_window_kinds", fmt.Sprintf("%s %s pre=%d post=%d applied=%v cut=%v", where, s.Name, len(rec.Pre), len(rec.Post), rec.PostApplied, rec.CutWhileHeld))
	return rec, nil
}

func (sc *feScenario) exchOutcome(ex *feExch) string {
	sc.fe.mu.Lock()
	defer sc.fe.mu.Unlock()
	return ex.Outcome
}

func (sc *feScenario) modelCopy() table {
	sc.base.mu.Lock()
	defer sc.base.mu.Unlock()
	return sc.base.model.clone()
}

// outage cuts the standby's stream, keeps the standby out while changes are made, lets it back in.
// With window, the connect-time snapshot of the reconnect is armed before the standby is let in.
func (sc *feScenario) outage(ep, maxAway int, window bool) *feWindow {
	fd := sc.fe.fd
	fd.armGate()
	mode := pick(sc.rng, "clean", "abort")
	if st := fd.cutLive(mode); st != nil {
		deadline := time.Now().Add(20 * time.Second)
		for !st.ended.Load() && time.Now().Before(deadline) {
			time.Sleep(100 * time.Microsecond)
		}
		sc.cnt("E_cuts_"+mode, 1)
	}
	n := sc.rng.IntN(maxAway + 1)
	for i := 0; i < n; i++ {
		sc.opMu.Lock()
		sc.base.phase.Store("away")
		sc.base.doOp(0, sc.rng, 50)
		sc.opMu.Unlock()
	}
	sc.cnt("E_changes_while_standby_away", n)
	var w *feWindow
	if window {
		w = sc.fe.arm()
	}
	fd.releaseGate()
	return w
}

// settle: a sentinel applied by the standby through its present stream, connected before and
// after, the same stream relayed all along, no snapshot exchange got its turn meanwhile.
func (sc *feScenario) settle() (*pushRec, *fdStream, bool, error) {
	start := time.Now()
	for try := 0; try < 14; try++ {
		st, ok := sc.linkUp()
		if !ok {
			return nil, nil, false, nil
		}
		s0 := sc.fe.state()
		rec := sc.sentinel()
		sc.cnt("E_sentinels_pushed", 1)
		for {
			before := sc.store.logLen()
			if _, ok := sc.store.waitPut(rec.Op, pace(try)); ok {
				st2, ok2 := sc.linkUp()
				if ok2 && st2 == st && sc.fe.state().started == s0.started {
					return rec, st, true, nil
				}
				return nil, nil, false, nil
			}
			if st.ended.Load() {
				return nil, nil, false, nil
			}
			if sc.store.logLen() == before {
				break
			}
			if time.Since(start) > 180*time.Second {
				return nil, nil, false, sc.fail("standby still busy with a backlog after 180 s")
			}
		}
		sc.cnt("E_sentinel_repushed", 1)
	}
	return nil, nil, false, sc.fail("no sentinel came through a stream on which the standby reports connected")
}

// point brings the scenario to a convergence point and judges it. Snapshot requests are kept
// waiting (not forwarded) from before the sentinel is pushed until the tables have been compared.
func (sc *feScenario) point(ep int, after string, win *feWinRec) error {
	defer sc.fe.setHold(false)
	for round := 0; round < 24; round++ {
		sc.fe.setHold(true)
		if !sc.fe.waitIdle(30 * time.Second) {
			return sc.fail("a snapshot exchange was still in progress after 30 s")
		}
		if _, ok := sc.linkUp(); !ok {
			sc.fe.setHold(false)
			if err := sc.awaitLink(); err != nil {
				return err
			}
			continue
		}
		if u := sc.fe.state().unknown; u != sc.unknownSeen {
			// a snapshot was handed over and the standby's statistics never said that full sync completed:
			// it may still be on its way, so this point is not judged
			sc.unknownSeen = u
			sc.cnt("E_points_not_judged_snapshot_completion_not_observed", 1)
			sc.lastSt = nil
			return nil
		}
		rec, st, ok, err := sc.settle()
		if err != nil {
			return err
		}
		if !ok {
			sc.cnt("E_link_lost_before_sentinel_came_through", 1)
			continue
		}
		sc.judge(ep, after, win, rec, st)
		return nil
	}
	return sc.fail("no convergence point reached in 24 rounds")
}

func (sc *feScenario) judge(ep int, after string, win *feWinRec, sent *pushRec, st *fdStream) {
	b := sc.base
	got := sc.store.table()
	want := sc.modelCopy()
	if act := b.actStore.table(); len(diffTables(act, want)) > 0 {
		harnessFailed.Store(true)
		fmt.Printf("layer E: harness model %s differs from the active's store %s\n", want, act)
	}
	fs := sc.fe.state()
	pt := &fePoint{Episode: ep, After: after, SentinelOp: sent.Op, Standby: got.String(), Active: want.String(), MidRequests: fs.nMid, Segment: "not-judged"}
	ds := diffTables(got, want)
	pt.Equal = len(ds) == 0
	sc.points = append(sc.points, pt)
	sc.cnt("E_convergence_points_judged", 1)
	if sc.fctx != nil {
		sc.cnt("F_points_after_resync_while_quiet_following_snapshot_built_while_sessions_changed", 1)
	}
	sc.cnt("E_convergence_points_full_sync_interval_"+sc.ivName, 1)
	if sc.interval > 0 && sc.interval < time.Second {
		sc.cnt("E_convergence_points_on_standby_with_small_full_sync_interval", 1)
	}
	midSince := fs.nMidDeliv - sc.midSeen
	sc.midSeen = fs.nMidDeliv
	if midSince > 0 {
		sc.cnt("E_convergence_points_after_snapshot_requested_while_stream_was_up_was_handed_over", 1)
	}
	heldWithChanges := win != nil && win.RequestSeen && len(win.Post) > 0
	if win != nil {
		sc.cnt("E_convergence_points_after_a_window", 1)
		if win.RequestSeen {
			sc.cnt("E_convergence_points_after_held_snapshot_window", 1)
			sc.cnt("E_convergence_points_after_held_"+strings.ReplaceAll(win.Where, "-", "_")+"_snapshot", 1)
		} else {
			sc.cnt("E_convergence_points_after_window_without_snapshot_request", 1)
		}
		if heldWithChanges {
			sc.cnt("E_convergence_points_after_snapshot_handed_over_after_changes_it_does_not_contain", 1)
			sc.nHeldPt++
		}
		sc.sig = append(sc.sig, fmt.Sprintf("[%s %s req=%v pre=%d post=%d applied=%v eq=%v]", win.Where, win.Script, win.RequestSeen, len(win.Pre), len(win.Post), win.PostApplied, pt.Equal))
	}

	// ---- clause (ii): what the standby applied since the previous point on this stream
	sc.judgeSegment(pt, sent, st, fs)

	// a difference that was reported at the previous point and that the standby still holds unchanged,
	// on the same stream and with no snapshot handed over since, is that finding again, not a new one
	carried := sc.lastSt == st && fs.delivered == sc.lastDelivered
	prevDiff := sc.lastDiff
	sc.lastDiff = map[string]string{}
	for _, d := range ds {
		sc.lastDiff[d.SID] = d.Kind + "|" + d.Got
	}
	sc.lastSt, sc.lastStamp, sc.lastPush, sc.lastDelivered = st, sc.putStamp(sent.Op), sent.Idx, fs.delivered

	if pt.Equal {
		sc.cnt("E_convergence_points_equal", 1)
		return
	}
	if carried {
		var fresh []tdiff
		for _, d := range ds {
			if prevDiff[d.SID] != d.Kind+"|"+d.Got {
				fresh = append(fresh, d)
			}
		}
		if len(fresh) == 0 {
			sc.cnt("E_convergence_points_still_differing_as_reported_at_the_previous_point", 1)
			return
		}
		ds = fresh
	}
	kinds := strings.Join(diffKinds(ds), "+")
	wit := map[string]any{"scenario": sc.describe(), "point": pt, "differences": ds, "window_before_this_point": win}
	layer := "E"
	if sc.fEps != nil {
		layer = "F"
	}
	head := fmt.Sprintf("layer %s scenario %d (standby FullSyncInterval %s): the standby reports IsConnected()==true, the active is quiet and a sentinel pushed afterwards (op %d) came through the stream, no snapshot is on its way, yet standby %s != active %s (%s)", layer, sc.idx, sc.ivName, sent.Op, got, want, kinds)
	switch {
	case sc.fctx != nil:
		violation(sc.size(), compLoop, ruleConv, "after-resync-while-quiet-following-snapshot-built-while-sessions-changed",
			fmt.Sprintf("%s; before that, the active had built a full-sync reply while its session manager changed sessions (in the middle of the handler's table read: before it %v, after it %v; all stored first, then pushed), and then, with no further change on the active, the link was cut and the standby re-synchronised %d time(s)", head, sc.fctx.Before, sc.fctx.After, len(sc.fctx.Quiet)), wit)
	case heldWithChanges && win.Where == "mid-stream":
		undone := 0
		for _, d := range ds {
			if win.touched[d.SID] {
				undone++
			}
		}
		violation(sc.size(), compLoop, ruleConv, "snapshot-taken-before-streamed-changes-applied-after-them",
			fmt.Sprintf("%s: a snapshot request made while the stream was up (request #%d) was answered by the active with %s; then %s were pushed%s; then the response reached the standby, whose table went from %s to %s; %d of the differing sessions are the ones changed in between; nothing repairs it while the link stays up (script %q)",
				head, win.Request, win.Snapshot, strings.Join(win.Post, ", "), map[bool]string{true: " and applied by the standby from the stream", false: ""}[win.PostApplied], win.StandbyAtRel, win.StandbyAfter, undone, win.Script), wit)
	case midSince > 0:
		violation(sc.size(), compLoop, ruleConv, "after-snapshot-requested-while-stream-was-up",
			fmt.Sprintf("%s; since the previous convergence point %d snapshot(s) the standby had requested while the stream was up were handed over to it (not held by the harness: forwarded and answered as they came, one at a time), while changes were being pushed on the stream", head, midSince), wit)
	case win != nil && win.RequestSeen:
		violation(sc.size(), compConnect, ruleConv, "after-held-connect-time-snapshot:"+kinds,
			fmt.Sprintf("%s; the snapshot of this connection (%s) was handed over after %s had been pushed on the already attached stream (script %q)", head, win.Snapshot, strings.Join(win.Post, ", "), win.Script), wit)
	default:
		violation(sc.size(), compLoop, ruleConv, "unexplained:"+kinds, head, wit)
	}
}

func (sc *feScenario) putStamp(op uint64) int64 {
	sc.store.mu.Lock()
	defer sc.store.mu.Unlock()
	return sc.store.seen[op]
}

// judgeSegment is clause (ii) between the previous convergence point and this one, when both were
// reached on the same stream: every change pushed in between was pushed on a connected stream.
func (sc *feScenario) judgeSegment(pt *fePoint, sent *pushRec, st *fdStream, fs feState) {
	if sc.lastSt == nil || sc.lastSt != st {
		return
	}
	b := sc.base
	b.mu.Lock()
	var exp []*pushRec
	for _, p := range b.pushes {
		if p.Idx > sc.lastPush && p.Idx <= sent.Idx && p.Ret != 0 {
			exp = append(exp, p)
		}
	}
	b.mu.Unlock()
	end := sc.putStamp(sent.Op)
	var log []storeOp
	for _, o := range sc.store.logCopy() {
		if o.Stamp > sc.lastStamp && o.Stamp <= end {
			log = append(log, o)
		}
	}
	tok := func(kind, sid string, op uint64) string {
		if kind == "delete" {
			return "delete " + sid
		}
		return fmt.Sprintf("put %s@%d", sid, op)
	}
	var want, got []string
	for _, p := range exp {
		want = append(want, tok(p.Type, p.SID, p.Op))
	}
	nGot := map[string]int{}
	for _, o := range log {
		t := tok(o.Kind, o.SID, o.Op)
		got = append(got, t)
		nGot[t]++
	}
	nWant := map[string]int{}
	for _, t := range want {
		nWant[t]++
	}
	clean := fs.delivered == sc.lastDelivered
	wit := func() map[string]any {
		return map[string]any{"scenario": sc.describe(), "pushed_since_previous_point": want, "applied_by_standby_since_previous_point": got, "snapshots_handed_over_in_between": fs.delivered - sc.lastDelivered}
	}
	sc.cnt("E_obligated_pushes_judged", len(exp))
	var lost []string
	for _, t := range want {
		if nGot[t] < nWant[t] {
			lost = append(lost, t)
		}
	}
	if len(lost) > 0 {
		sort.Strings(lost)
		violation(sc.size(), compBroadcast+"->handleSSEData", ruleOrder, "not-applied:"+strings.Fields(lost[0])[0],
			fmt.Sprintf("layer E scenario %d (standby FullSyncInterval %s): %d change(s) pushed on a connected stream between two sentinels that both came through it were not applied by the standby (first: %s)", sc.idx, sc.ivName, len(lost), lost[0]), wit())
	}
	if !clean {
		pt.Segment = "no-loss"
		sc.cnt("E_segments_judged_no_loss_with_snapshots_in_between", 1)
		return
	}
	pt.Segment = "exact"
	sc.cnt("E_segments_judged_exactly_the_pushes_in_push_order", 1)
	if len(lost) > 0 || strings.Join(want, "|") == strings.Join(got, "|") {
		return
	}
	cls := "reordered"
	for t, n := range nGot {
		if nWant[t] == 0 {
			cls = "applied-change-never-pushed:" + strings.Fields(t)[0]
			break
		}
		if n > nWant[t] {
			cls = "applied-twice"
		}
	}
	violation(sc.size(), compStream, ruleOrder, cls,
		fmt.Sprintf("layer E scenario %d (standby FullSyncInterval %s): between two sentinels on one connected stream, with no snapshot handed over in between, the standby applied [%s] while the active pushed [%s]", sc.idx, sc.ivName, strings.Join(got, ", "), strings.Join(want, ", ")), wit())
}

func (sc *feScenario) midWait() time.Duration {
	if sc.interval <= 0 || sc.interval > time.Second {
		return 15 * time.Millisecond
	}
	d := 3*sc.interval + 30*time.Millisecond
	return d
}

func (sc *feScenario) run() error {
	rng := sc.rng
	if err := sc.start(); err != nil {
		return err
	}
	nEp := 2 + rng.IntN(run.Pick(2, 3))
	for e := 0; e < nEp; e++ {
		// ---- (re)connection, the snapshot of it held in two cases out of three
		var w *feWindow
		held := rng.IntN(3) != 0
		if e == 0 {
			if held {
				w = sc.fe.arm()
			}
			if err := sc.sb.Start(); err != nil {
				return sc.fail(err.Error())
			}
		} else {
			w = sc.outage(e, 4, held)
		}
		var rec *feWinRec
		if w != nil {
			var err error
			if rec, err = sc.window(e, w, sc.script(), "connect-time", 60*time.Second); err != nil {
				return err
			}
			sc.fe.setHold(false)
			if !rec.RequestSeen {
				return sc.fail("the standby made no snapshot request within 60 s of being let in")
			}
		}
		if err := sc.awaitLink(); err != nil {
			return err
		}
		if err := sc.point(e, "connect", rec); err != nil {
			return err
		}
		// ---- the stream is up: windows for snapshot requests the standby may make now
		for k, n := 0, 1+rng.IntN(run.Pick(2, 3)); k < n; k++ {
			s := sc.script()
			sc.cnt("E_mid_stream_windows_offered", 1)
			sc.cnt("E_mid_stream_windows_offered_full_sync_interval_"+sc.ivName, 1)
			w := sc.fe.arm()
			rec, err := sc.window(e, w, s, "mid-stream", sc.midWait())
			if err != nil {
				return err
			}
			if err := sc.point(e, "mid-stream window", rec); err != nil {
				return err
			}
		}
		// ---- plain changes on the live stream
		n := 1 + rng.IntN(5)
		if rng.IntN(6) == 0 {
			n = 20 + rng.IntN(40)
		}
		for i := 0; i < n; i++ {
			sc.opMu.Lock()
			sc.base.phase.Store("conn")
			sc.base.doOp(0, rng, 30)
			sc.opMu.Unlock()
		}
		if err := sc.point(e, "changes on the stream", nil); err != nil {
			return err
		}
	}
	fs := sc.fe.state()
	sc.cnt("E_snapshot_requests_seen", fs.seen)
	sc.cnt("E_snapshot_requests_made_while_stream_was_up", fs.nMid)
	sc.cnt("E_snapshot_requests_at_connect_time", fs.seen-fs.nMid)
	sc.cnt("E_snapshots_handed_over", fs.delivered)
	return nil
}

// ---------------------------------------------------------------- test entries

func TestLayerE(t *testing.T) {
	if child {
		layerEChild(t, false)
		return
	}
	t.Parallel()
	id := wdEnter("layer E")
	defer wdLeave(id)
	spawnChildren(t, "TestLayerE", "E", run.Pick(54, 720), run.Pick(2, 4))
}

// TestLayerEZero: FullSyncInterval = 0 ("disabled"), in a process of its own.
func TestLayerEZero(t *testing.T) {
	if child {
		layerEChild(t, true)
		return
	}
	t.Parallel()
	id := wdEnter("layer E0")
	defer wdLeave(id)
	spawnChildrenAs(t, "TestLayerEZero", "E0", run.Pick(4, 24), 1, compLoop)
}

func layerEChild(t *testing.T, zero bool) {
	id := wdEnter("layer E child")
	defer wdLeave(id)
	var lo, hi int
	if _, err := fmt.Sscanf(os.Getenv("VERIF_C13_RANGE"), "%d:%d", &lo, &hi); err != nil {
		t.Fatal("VERIF_C13_RANGE: ", err)
	}
	workers := 4
	var wg sync.WaitGroup
	next := int64(lo - 1)
	var sampled atomic.Int64
	for w := 0; w < workers; w++ {
		wg.Add(1)
		go func() {
			defer wg.Done()
			for {
				i := int(atomic.AddInt64(&next, 1))
				if i >= hi {
					return
				}
				idx := i
				if zero {
					idx = 100000 + i
				}
				sc := newFeScenario(idx, zero)
				err := sc.run()
				sc.stop()
				for k, v := range sc.base.counts {
					col.Count(k, v)
				}
				if err != nil {
					col.Inconclusive(fmt.Sprintf("layerE-%d", idx), err.Error())
					col.Count("E_scenarios_inconclusive", 1)
					continue
				}
				col.Eval()
				col.Count("E_scenarios", 1)
				col.Count("E_scenarios_full_sync_interval_"+sc.ivName, 1)
				for _, p := range sc.base.pushes {
					col.Count("E_push_"+p.Type+"_"+p.Phase, 1)
				}
				sig := sc.ivName + strings.Join(sc.sig, "")
				col.Distinct("E_scenario_signatures", sig)
				if sc.nHeldPt > 0 {
					col.Nontrivial("E|" + sig)
				}
				if sc.nHeldPt > 1 && sampled.Add(1) <= 1 {
					col.Sample(sc.describe())
				}
			}
		}()
	}
	wg.Wait()
}
