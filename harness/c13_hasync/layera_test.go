package c13

import (
	"bytes"
	"errors"
	"fmt"
	"io"
	"math/rand/v2"
	"net/http"
	"net/http/httptest"
	"runtime"
	"runtime/debug"
	"strings"
	"sync"
	"testing"
	"time"

	"github.com/codelaboratoryltd/bng/pkg/ha"
	"go.uber.org/zap"
)

// ---------------------------------------------------------------- layer A: message handling, deterministic

// aOp is one step of a layer-A history.
type aOp struct {
	K  byte // a add, u update, d delete, h heartbeat, x disconnect, r reconnect (full sync + attach), f failed full sync
	ID int
	F  string // failure mode of 'f': 503 | truncated | transport
}

func (o aOp) String() string {
	switch o.K {
	case 'a', 'u', 'd':
		return fmt.Sprintf("%c%d", o.K, o.ID)
	case 'f':
		return "f(" + o.F + ")"
	}
	return string(o.K)
}

func histString(h []aOp) string {
	var b strings.Builder
	for i, o := range h {
		if i > 0 {
			b.WriteByte(' ')
		}
		b.WriteString(o.String())
	}
	return b.String()
}

// memTransport serves the standby's GET /ha/sessions from the real handler of the active syncer,
// in memory, and keeps the body that was served.
type memTransport struct {
	act  *ha.HASyncer
	fail string
	body []byte
}

func (m *memTransport) RoundTrip(req *http.Request) (*http.Response, error) {
	if m.fail == "transport" {
		return nil, errors.New("c13: link down")
	}
	rec := httptest.NewRecorder()
	if req.URL.Path == "/ha/sessions" {
		m.act.VerifC13HandleGetSessions(rec, req)
	} else {
		rec.WriteHeader(http.StatusNotFound)
	}
	res := rec.Result()
	b, _ := io.ReadAll(res.Body)
	switch m.fail {
	case "503":
		res.StatusCode, res.Status = 503, "503 Service Unavailable"
		b = []byte("unavailable")
	case "truncated":
		b = b[:len(b)/2]
	default:
		m.body = b
	}
	res.Body = io.NopCloser(bytes.NewReader(b))
	res.ContentLength = int64(len(b))
	return res, nil
}

type aResult struct {
	delivered   int  // change messages handed to the standby
	heartbeats  int  // heartbeats handed to the standby
	fullSyncs   int  // completed full syncs judged
	failedSyncs int  // failed full syncs
	syncChanged bool // some full sync found a standby table different from the snapshot before applying
	staleReach  int  // full syncs that met sessions on the standby which the snapshot did not contain
	dropped     int  // changes pushed while disconnected (never delivered)
	overtaken   int  // heartbeats that overtook a queued change
	violations  int
	finalKey    string
}

type aCase struct {
	hist []aOp
	lag  bool
	rng  *rand.Rand // nil: deterministic field changes (exhaustive mode)
	mode string
}

func (c *aCase) witness(step int, extra map[string]any) map[string]any {
	w := map[string]any{"layer": "A", "mode": c.mode, "lag": c.lag, "history": histString(c.hist), "failing_step": step, "failing_op": c.hist[step].String(),
		"legend": "aN/uN/dN add/update/delete session sN on the active (store, then PushChange); h heartbeat; x stream disconnected; r standby performs full sync and attaches; f failed full sync; lag=true: a change stays in the pending queue for one step (a heartbeat overtakes it)"}
	for k, v := range extra {
		w[k] = v
	}
	return w
}

var nop = zap.NewNop()

// runLayerA executes one history against real syncers and judges every step.
func runLayerA(c *aCase) aResult {
	var res aResult
	counts := map[string]int{}
	cnt := func(k string, n int) { counts[k] += n }
	defer func() {
		for k, n := range counts {
			run.Count(k, n)
		}
	}()
	var clock int64
	actStore := ha.NewInMemorySessionStore()
	act := ha.NewHASyncer(ha.SyncConfig{NodeID: "act", Role: ha.RoleActive, HeartbeatInterval: time.Hour, RequestTimeout: time.Minute}, actStore, nop)
	sbStore := newRecStore(&clock)
	sb := ha.NewHASyncer(ha.SyncConfig{NodeID: "sby", Role: ha.RoleStandby, Partner: &ha.PartnerInfo{NodeID: "act", Endpoint: "c13.mem"}, RequestTimeout: time.Minute, FullSyncInterval: time.Hour}, sbStore, nop)
	mt := &memTransport{act: act}
	sb.VerifC13SetTransport(mt)
	defer act.Stop()
	defer sb.Stop()

	model := table{} // the active's table as the harness made it
	connected := false
	var nextOp uint64
	pending := act.VerifC13Pending()

	views := func() map[string]table {
		return map[string]table{"store": sbStore.table(), "received-map": tableOfPtrs(sb.GetAllReceivedSessions())}
	}
	prev := views()

	// judge compares each view of the standby with what the step should have produced from the
	// view's previous content (so one defect does not cascade into later steps).
	judge := func(step int, comp, rule, what string, expect func(view string, before table) table) {
		now := views()
		for _, v := range []string{"store", "received-map"} {
			want := expect(v, prev[v])
			if ds := diffTables(now[v], want); len(ds) > 0 {
				res.violations++
				for _, k := range diffKinds(ds) {
					cls := v + ":" + k
					if what != "" {
						cls = v + ":" + what + ":" + k
					}
					violation(len(c.hist), comp, rule, cls,
						fmt.Sprintf("layer A history [%s] (lag=%v): after step %d (%s) the standby's %s is %s, expected %s", histString(c.hist), c.lag, step, c.hist[step], v, now[v], want),
						c.witness(step, map[string]any{"view": v, "standby_before": prev[v].String(), "standby_after": now[v].String(), "expected": want.String(), "differences": ds}))
				}
			}
		}
		prev = now
	}

	deliver := func(step int, msg *ha.SyncMessage) {
		data, err := msg.Encode()
		if err != nil {
			harnessFailed.Store(true)
			return
		}
		if err := sb.VerifC13HandleSSEData(data); err != nil {
			violation(len(c.hist), compStream, ruleOrder, "handler-error:"+string(msg.Type), fmt.Sprintf("handleSSEData returned %v for a message the active produced", err), c.witness(step, map[string]any{"message": string(data)}))
			res.violations++
		}
		if msg.Type == ha.SyncTypeHeartbeat {
			res.heartbeats++
			cnt("A_heartbeats_delivered", 1)
			judge(step, compStream, ruleOrder, "heartbeat", func(_ string, before table) table { return before })
			return
		}
		res.delivered++
		cnt("A_delivered_"+string(msg.Type), 1)
		cnt("A_stream_messages_judged", 1)
		judge(step, compStream, ruleOrder, string(msg.Type), func(_ string, before table) table {
			want := before.clone()
			for _, s := range msg.Sessions {
				if msg.Type == ha.SyncTypeDelete {
					delete(want, s.SessionID)
				} else {
					want[s.SessionID] = s
				}
			}
			return want
		})
	}
	// flush empties the active's pending queue the way broadcastLoop does: to the stream if a
	// client is attached, to nobody otherwise.
	flush := func(step int) {
		for {
			select {
			case msg := <-pending:
				if connected {
					deliver(step, msg)
				} else {
					res.dropped++
					cnt("A_changes_while_disconnected", 1)
				}
			default:
				return
			}
		}
	}
	push := func(t ha.SyncMessageType, s ha.SessionState) {
		if err := act.PushChange(t, &s); err != nil {
			harnessFailed.Store(true)
		}
	}

	for step, o := range c.hist {
		if c.lag && o.K != 'h' && o.K != 'r' && o.K != 'f' {
			flush(step)
		}
		sid := fmt.Sprintf("s%d", o.ID)
		switch o.K {
		case 'a':
			nextOp++
			s := newSession(sid, nextOp, c.rng)
			actStore.PutSession(&s)
			model[sid] = s
			push(ha.SyncTypeAdd, s)
		case 'u':
			nextOp++
			s := updateSession(model[sid], nextOp, c.rng)
			actStore.PutSession(&s)
			model[sid] = s
			push(ha.SyncTypeUpdate, s)
		case 'd':
			nextOp++
			s := model[sid]
			s.BytesIn = nextOp
			actStore.DeleteSession(sid)
			delete(model, sid)
			push(ha.SyncTypeDelete, s)
		case 'h':
			if len(pending) > 0 {
				res.overtaken++
				cnt("A_heartbeat_overtook_queued_change", 1)
			}
			deliver(step, &ha.SyncMessage{Type: ha.SyncTypeHeartbeat, Timestamp: time.Now(), SequenceNum: act.VerifC13SequenceNum(), NodeID: "act"})
		case 'x':
			connected = false
		case 'f':
			mt.fail = o.F
			err := sb.VerifC13PerformFullSync()
			mt.fail = ""
			res.failedSyncs++
			cnt("A_failed_full_syncs", 1)
			if err == nil {
				violation(len(c.hist), compFull, ruleFull, "failed-get-reported-as-completed:"+o.F, "performFullSync returned nil although the GET failed ("+o.F+")", c.witness(step, nil))
				res.violations++
			}
			prev = views() // a failed sync is not a completed one: nothing is required of the table
		case 'r':
			before := sbStore.table()
			if err := sb.VerifC13PerformFullSync(); err != nil {
				harnessFailed.Store(true)
				run.Inconclusive("layerA", "performFullSync over the in-memory transport failed: "+err.Error())
				return res
			}
			msg, err := ha.DecodeSyncMessage(mt.body)
			if err != nil {
				harnessFailed.Store(true)
				return res
			}
			snap := tableOf(msg.Sessions)
			if ds := diffTables(snap, model); len(ds) > 0 {
				violation(len(c.hist), compGet, ruleSnap, strings.Join(diffKinds(ds), "+"), fmt.Sprintf("GET /ha/sessions served %s while the active's table is %s", snap, model), c.witness(step, map[string]any{"differences": ds}))
				res.violations++
			}
			if len(diffTables(before, snap)) > 0 {
				res.syncChanged = true
			}
			for id := range before {
				if _, ok := snap[id]; !ok {
					res.staleReach++
					cnt("A_full_syncs_meeting_sessions_absent_from_snapshot", 1)
					break
				}
			}
			res.fullSyncs++
			cnt("A_full_syncs_judged", 1)
			judge(step, compFull, ruleFull, "", func(string, table) table { return snap })
			connected = true
		}
		if !c.lag {
			flush(step)
		}
		cnt("A_steps_"+string(o.K), 1)
	}
	flush(len(c.hist) - 1)
	// (iii) on this layer: connected, queue empty, every step judged fine => tables equal.
	if connected && res.violations == 0 && len(c.hist) > 0 {
		cnt("A_convergence_points_judged", 1)
		if ds := diffTables(sbStore.table(), model); len(ds) > 0 {
			violation(len(c.hist), compLoop, ruleConv, "layerA:"+strings.Join(diffKinds(ds), "+"), fmt.Sprintf("layer A history [%s]: every step judged fine, link up, queue empty, yet standby %s != active %s", histString(c.hist), sbStore.table(), model), c.witness(len(c.hist)-1, map[string]any{"differences": ds}))
		}
	}
	res.finalKey = fmt.Sprintf("%v|%d|%d", connected, len(model), len(prev["store"]))
	return res
}

// safeLayerA turns a panic of the code under test into a witness instead of losing the run.
func safeLayerA(c *aCase) (r aResult) {
	defer func() {
		if p := recover(); p != nil {
			cls := digits.ReplaceAllString(fmt.Sprint(p), "N")
			if len(cls) > 100 {
				cls = cls[:100]
			}
			violation(len(c.hist), "ha.HASyncer (message handling)", "no-panic", cls, fmt.Sprintf("layer A history [%s] (lag=%v) panicked: %v", histString(c.hist), c.lag, p),
				map[string]any{"layer": "A", "history": histString(c.hist), "lag": c.lag, "panic": fmt.Sprint(p), "stack": string(debug.Stack())})
			r.violations++
		}
	}()
	return runLayerA(c)
}

func recordA(c *aCase, r aResult) {
	run.Eval()
	run.Count("A_histories", 1)
	run.Distinct("A_end_shapes", r.finalKey)
	if r.delivered > 0 || r.syncChanged {
		run.Nontrivial(fmt.Sprintf("A|%s|%v|%s", c.mode, c.lag, histString(c.hist)))
		run.Count("A_histories_nontrivial", 1)
	}
	if r.staleReach > 0 {
		run.Count("A_histories_with_delete_while_away_then_full_sync", 1)
	}
}

// enumA enumerates all histories of exactly the given depth (every prefix is judged on the way)
// over maxIDs session ids up to renaming; op validity follows the active's table.
func enumA(depth, maxIDs int, emit func([]aOp)) {
	var rec func(h []aOp, present uint, used int, connected bool)
	rec = func(h []aOp, present uint, used int, connected bool) {
		if len(h) == depth {
			emit(append([]aOp(nil), h...))
			return
		}
		for id := 0; id < maxIDs && id <= used; id++ {
			if present&(1<<id) != 0 {
				rec(append(h, aOp{K: 'u', ID: id}), present, used, connected)
				rec(append(h, aOp{K: 'd', ID: id}), present&^(1<<id), used, connected)
			} else {
				u := used
				if id == used {
					u++
				}
				rec(append(h, aOp{K: 'a', ID: id}), present|(1<<id), u, connected)
			}
		}
		if connected {
			rec(append(h, aOp{K: 'h'}), present, used, true)
			rec(append(h, aOp{K: 'x'}), present, used, false)
		} else {
			rec(append(h, aOp{K: 'r'}), present, used, true)
		}
	}
	rec(nil, 0, 0, false)
}

func parallelA(cases <-chan *aCase, sample func(*aCase, aResult)) {
	var wg sync.WaitGroup
	for w := 0; w < runtime.NumCPU(); w++ {
		wg.Add(1)
		go func() {
			defer wg.Done()
			for c := range cases {
				r := safeLayerA(c)
				recordA(c, r)
				if sample != nil {
					sample(c, r)
				}
			}
		}()
	}
	wg.Wait()
}

func TestLayerAExhaustive(t *testing.T) {
	if child {
		return
	}
	t.Parallel()
	id := wdEnter("layer A exhaustive")
	defer wdLeave(id)
	// (depth, ids): wider alphabets one level shallower
	plans := [][2]int{{run.Pick(6, 8), 2}, {run.Pick(5, 7), 3}, {run.Pick(4, 6), 4}}
	var once [2]sync.Once
	for _, p := range plans {
		for _, lag := range []bool{false, true} {
			ch := make(chan *aCase, 256)
			go func() {
				enumA(p[0], p[1], func(h []aOp) { ch <- &aCase{hist: h, lag: lag, mode: fmt.Sprintf("exhaustive-d%d-ids%d", p[0], p[1])} })
				close(ch)
			}()
			li := 0
			if lag {
				li = 1
			}
			parallelA(ch, func(c *aCase, r aResult) {
				if r.staleReach > 0 && r.delivered > 1 && r.fullSyncs > 1 {
					once[li].Do(func() {
						run.Sample(map[string]any{"layer": "A", "kind": c.mode, "lag": c.lag, "history": histString(c.hist), "delivered_changes": r.delivered, "full_syncs": r.fullSyncs, "violations_in_case": r.violations})
					})
				}
			})
		}
	}
	run.Extra("A_exhaustive_plans_depth_ids", plans)
	run.Extra("exhaustive", false)
}

func TestLayerARandom(t *testing.T) {
	if child {
		return
	}
	t.Parallel()
	id := wdEnter("layer A random")
	defer wdLeave(id)
	n := run.Pick(2000, 40000)
	ch := make(chan *aCase, 256)
	go func() {
		for i := 0; i < n; i++ {
			rng := run.SubRand("A-walk", i)
			ch <- &aCase{hist: randomHistA(rng), lag: rng.IntN(3) == 0, rng: rng, mode: "random"}
		}
		close(ch)
	}()
	var once sync.Once
	parallelA(ch, func(c *aCase, r aResult) {
		if r.failedSyncs > 0 && r.fullSyncs > 1 {
			once.Do(func() {
				run.Sample(map[string]any{"layer": "A", "kind": "random-walk", "lag": c.lag, "history": histString(c.hist), "delivered_changes": r.delivered, "full_syncs": r.fullSyncs, "failed_full_syncs": r.failedSyncs})
			})
		}
	})
}

func randomHistA(rng *rand.Rand) []aOp {
	n := 10 + rng.IntN(51)
	nIDs := 1 + rng.IntN(4)
	present := map[int]bool{}
	connected := false
	var h []aOp
	for len(h) < n {
		x := rng.IntN(100)
		switch {
		case x < 70:
			id := rng.IntN(nIDs)
			if !present[id] {
				h = append(h, aOp{K: 'a', ID: id})
				present[id] = true
			} else if rng.IntN(3) == 0 {
				h = append(h, aOp{K: 'd', ID: id})
				delete(present, id)
			} else {
				h = append(h, aOp{K: 'u', ID: id})
			}
		case x < 78:
			if connected {
				h = append(h, aOp{K: 'h'})
			}
		case x < 88:
			if connected {
				h = append(h, aOp{K: 'x'})
				connected = false
			} else {
				h = append(h, aOp{K: 'r'})
				connected = true
			}
		case x < 94:
			if !connected {
				h = append(h, aOp{K: 'f', F: []string{"503", "truncated", "transport"}[rng.IntN(3)]})
			}
		default:
			if !connected {
				h = append(h, aOp{K: 'r'})
				connected = true
			}
		}
	}
	return h
}
