// Package c13 monitors property C13: the standby converges to the active node's
// session table (pkg/ha HASyncer: full sync GET + SSE stream of add/update/delete).
//
// Layer A (layera_test.go) drives the message-handling layer deterministically: the real
// PushChange / GET handler / performFullSync / handleSSEData, with an in-memory transport,
// exhaustively over short histories and by seeded random walks.
//
// Layer B (layerb_test.go) runs a real active and a real standby syncer (Start() on both) over
// loopback HTTP/SSE through a harness-owned reverse proxy that can hold, fail and cut the GET
// response and the SSE stream, under the race detector.
//
// Layer C (layerc_test.go) is about the connections themselves: one or two real standbys behind
// relays that let an old stream outlive the standby's reconnect on the active's side (half-open
// peers, both orders of old-handler-exit and new-registration, two standbys behind one address,
// reconnect storms), with changes pushed after every lifecycle step.
//
// Layer D (layerd_test.go) fails the two HTTP exchanges of a connection attempt independently
// (stream request refused / non-200 / accepted; snapshot request refused / 5xx / timed out /
// truncated / undecodable / valid) over several consecutive attempts, with changes on the active
// before, during and after, and judges the convergence clause whenever the standby reports connected.
//
// Layer E (layere_test.go) is about snapshots that overlap the live stream: the standby is started
// with small non-zero FullSyncInterval values (and the default, and 0), every snapshot request it
// makes -- at connect time or while the stream is up -- can be held before the active builds the
// response and after, while sessions are added, updated and deleted and the standby applies those
// changes from the stream, and is then handed over.
//
// Layer F (layerf_test.go) lets the active's session manager change sessions while the GET handler
// is in the middle of building a full-sync reply (right before / right after its table read), then
// keeps the active quiet while further full syncs are made (standby reconnections, a second party).
//
// The oracles are written from the property statement: (i) right after a completed full sync the
// standby's table equals the snapshot the active served; (ii) the changes pushed while the stream
// is connected are applied on the standby without loss, duplication or reordering; (iii) with the
// link up and the active quiet the tables are equal.
package c13

import (
	"fmt"
	"math/rand/v2"
	"os"
	"regexp"
	"runtime/debug"
	"sort"
	"strings"
	"sync"
	"sync/atomic"
	"syscall"
	"testing"
	"time"

	"github.com/codelaboratoryltd/bng/pkg/ha"

	"verif/harness/internal/vk"
)

var run *vk.Run

var anchored = []string{"pkg/ha/sync.go", "pkg/ha/store.go", "pkg/ha/protocol.go"}

// harnessFailed is set when the harness itself could not do its job.
var harnessFailed atomic.Bool

const (
	compFull      = "ha.HASyncer.performFullSync"
	compGet       = "ha.HASyncer.handleGetSessions"
	compStream    = "ha.HASyncer.handleSSEData"
	compBroadcast = "ha.HASyncer.broadcastToClients"
	compLoop      = "ha.HASyncer.standbyLoop"

	ruleFull  = "full-sync-equals-snapshot"
	ruleSnap  = "snapshot-equals-active-table"
	ruleOrder = "connected-changes-applied-in-push-order"
	ruleConv  = "quiescent-convergence"
)

func TestMain(m *testing.M) {
	run = vk.Start("C13", "exploration")
	run.Rule("layer A: histories over {add(i), update(i), delete(i) on the active (valid against its table, ids up to renaming), heartbeat, disconnect, reconnect(=full sync + attach)} executed on the real PushChange -> pending queue -> handleSSEData and the real GET handler -> performFullSync with an in-memory transport, in two delivery modes (immediate; one-step lag, where a heartbeat overtakes the queued change), exhaustively to the stated depth and by seeded random walks of 10-60 steps with random field-level updates and failed full syncs; the standby store and received-session map are judged after every step. layer B: seeded scenarios on a real active and standby (Start() on both) over loopback HTTP/SSE through a harness proxy: 1-4 connection cycles with changes before the snapshot, between snapshot and stream attach (gap), while connected (bursts of 1..1200 by 1-3 pushers, stalled link), while away, failed GETs/stream attaches, clean and aborted stream cuts (also mid-burst); clause (i) is judged when the stream request reaches the proxy, (ii) per connected interval from the push log / wire log / standby store log, (iii) at every settled point. non-trivial = layer A: distinct history with a delivered change or a full sync that had to change the standby's table; layer B: distinct observed scenario signature with at least one judged connected interval carrying obligated pushes. layer C (connection lifecycle): a real active, one or two real standbys (Start() on all) each behind its own relay that dials the active from a chosen loopback address (both standbys behind one address, or two addresses) and a harness witness stream from a third address; the relay ends the standby's side of a stream (EOF or reset) while the active's side is closed at once, or stays up and is still read, or stays up unread (half-open peer), and closes it later on command; it can hold the standby's next stream request until the old handler on the active has exited. Catalogue of opening episodes (scenario index mod 8: old stream outlives the new registration then goes; the same half-open with a burst in between; old handler gone before the new registration; natural order x3; two standbys one address x2; reconnect storm of 3-6 cuts with pushes in between; two standbys two addresses) followed by 2-8 random steps {cycle, close a lingering connection, close all, storm, burst}; after every step 1-5 (burst: 10-120) add/update/delete changes over <=4 session ids and a sentinel; clause (ii) is judged per standby and connected interval from the push log and the standby's store log, clause (iii) on every standby once the latest sentinel came through its stream. non-trivial (layer C) = distinct observed scenario signature with a judged push on a connection that began while another stream from the same address was registered. layer D (faults on the exchanges of a connection attempt): a real active and a real standby (Start() on both) with a harness front end in between that treats the standby's connection attempts one by one as planned, each of the two HTTP exchanges independently: stream request {accepted, refused (connection closed without an answer), 503, 404, accepted and ended when the snapshot request arrives}, snapshot request {valid, refused, 500, 503, no answer until the standby's deadline, complete response with half the document, connection broken in the middle of the body, HTML page with status 200, JSON that is no sync message, empty body}; 2-5 episodes per scenario, each = cut of the present stream (EOF or reset), 0-4 changes on the active while the standby is held out, then 0-4 planned attempts drawn at random (45% accepted stream + faulted snapshot, 30% faulted stream, 10% clean in the middle of the plan, 15% both faulted; the first reconnect of scenario i starts with accepted stream + snapshot fault number i mod 9) with 0-2 changes each before the stream request is forwarded, before the snapshot request is forwarded and after the active served the snapshot, then unplanned (clean) attempts; 1-5 (one in five: 20-60) changes on the connected stream afterwards; the convergence clause is judged whenever the standby reports IsConnected() on a relayed stream and a sentinel pushed afterwards came through that stream with no request of the standby arriving or in progress meanwhile. non-trivial (layer D) = distinct sequence of observed attempt outcomes with a convergence point judged after a faulted attempt at which the active's table differed from what the standby held when its stream was cut. layer E (snapshots overlapping the live stream): a real active and a real standby started through Start() with FullSyncInterval 8 ms | 20 ms | 50 ms | 120 ms | default 5 min (scenario index mod 6; 0 = disabled in scenarios of a child process of their own) behind the layer-D front end with a snapshot side of its own: snapshot exchanges are handed over one at a time and the front end waits for the standby's statistics to report the full sync completed; 2-4 episodes per scenario = (re)connection after a cut (EOF or reset) with 0-4 changes while away, the connect-time snapshot held in two cases out of three, then 1-3 windows in which the next snapshot request the standby makes while the stream is up (waited for 3 intervals + 30 ms; none arriving is recorded and the changes are made on the stream all the same) is held, then 1-5 (one in six: 20-60) plain changes; a held exchange follows a script from a fixed catalogue (window counter + 3*scenario index mod 11): changes before the request is forwarded to the active (they are in the snapshot) and after the active built the response (they are not; on a stream that is being read the driver waits until the standby has applied them): update / delete / add / delete+re-add / three updates of a session of the snapshot, add of an absent session (+ updates of it), changes before only, mixed, 0-3 + 0-4 random, none, and stream cut + reconnection while the response is held; a convergence point is judged after every connection, window and batch. non-trivial (layer E) = distinct scenario signature (interval + per window: where, script, request seen, numbers of changes, applied before release, outcome) with a convergence point judged after a snapshot that was handed over after changes it does not contain. layer F (sessions change while the active builds a full-sync reply, then full syncs while it is quiet): the layer-E set-up (FullSyncInterval default, 50 ms in one scenario out of four); after the first connection 2-3 episodes per scenario = cut of the stream (EOF or reset), 0-2 changes while the standby is away, then a reconnection during which the active's session store, inside the whole-table read made by the GET /ha/sessions handler, makes changes on the active (store first, then PushChange): 1-3 right before the read and/or 1-3 right after it (scenario index + episode mod 4: after | before and after | after | before; first change after the read from {add of an absent session, update, delete, any}, the rest random), in two cases out of three followed by a sentinel pushed from the same place, which the driver then (three cases out of four) waits for on the standby before going on; then no change at all on the active while 1-2 full syncs are made by the standby (stream cut, reconnection, snapshot exchange recorded by the front end and its completion read from the standby's statistics) and, in one episode out of three, by a second party (plain GET to the active) before and/or after them; every reply served in that quiet phase is compared with the active's table, the standby's table with the reply right after the completed full sync (only when the sentinel pushed after the read was applied from the previous stream, so that nothing pushed earlier can still arrive), then a convergence point, 1-4 plain changes and another point. non-trivial (layer F) = distinct scenario signature with a reply judged in the quiet phase of an episode whose earlier reply was built with changes right after the table read")
	run.Assume("a push is 'made while the stream is connected' iff PushChange was called after the harness observed IsConnected()==true for that stream and returned nil before the harness asked the proxy to cut it; 'lost' is decided without a clock: a later push (sentinel) has been applied through the same FIFO stream")
	run.Assume("the proxy's copy of the SSE stream (wire log) and the captured zap warnings are used only to name the witness class (where the message disappeared), never to decide a violation")
	run.Assume("reconnect back-off is shortened through a verif hook (fields backoff/backoffMin/backoffMax); RequestTimeout is set above the scenario length (http.Client.Timeout also bounds the SSE stream)")
	run.Assume("wall-clock time appears only in watchdogs and in re-push timers of the sentinel; both lead to inconclusive, never to a verdict")
	run.Assume("layer C: a standby's stream is 'connected' for the harness from the moment the relay has the active's 200 for a stream request issued after the previous interval ended AND the standby's IsConnected() is true, until the harness cuts it or either side ends it; 'the handler of an old stream has exited' is read from the active's own Info log line (sequencing and evidence counters only, never a verdict)")
	run.Assume("layer C, verdict 'a connected stream receives nothing' is decided on logical progress and state, not on time: after two sentinels met an idle standby a further one is pushed; the witness stream has received it and K>=25 heartbeats after it (K*interval >= 2.5 s nominal); the active's pending queue and every channel of its client table are empty (verif hook VerifC13SSEClientBacklog: no handler is lagging); the stream is up on both sides; and since before that sentinel was pushed no byte has arrived on the stream's upstream connection (kernel counter tcpi_bytes_received, self-checked per scenario), no event was relayed, the standby applied nothing; all of it observed twice, K heartbeats apart. Anything less is inconclusive")
	run.Assume("layer D: a connection attempt, for the evidence counters and the witness class only, is a stream request seen by the front end together with the snapshot request that follows it (or a snapshot request not preceded by a stream request of its own); the verdict does not depend on the grouping. The standby's deadline for the snapshot request is shortened to 400 ms in a third of the scenarios through a verif hook (field config.RequestTimeout after construction, so that the http.Client timeout that also bounds the SSE stream stays long); an unplanned expiry of that deadline under load is just one more failed attempt")
	run.Assume("layer F: 'the active is quiet' = the harness, which is the only writer of the active's session store, makes no change from the return of the store's whole-table read in which it made the last ones until the convergence point's sentinel; a reply served in between is the active's snapshot of a table that is not changing, so it must be that table. The callbacks in the store's read run on the handler's goroutine, with no lock of the store held, as a session manager running concurrently with the handler could")
	run.Assume("layer E: a snapshot request is 'made while the stream is up' iff it reached the front end while a stream was being relayed and the standby reported IsConnected() (label for evidence counters and witness class only). The convergence clause is judged when the standby reports IsConnected() on a relayed stream, a sentinel pushed after every other change has been applied through that stream, every snapshot response the active has built has been handed over and the standby's Stats().LastSyncTime has moved past the hand-over (sequencing only: otherwise the point is not judged), and snapshot requests arriving meanwhile are kept waiting unanswered by the front end (a link may be that slow; they carry nothing). The push-order clause is judged between two such points on one stream: exactly the pushes in push order when no snapshot was handed over in between, no push missing otherwise")
	debug.SetGCPercent(800)
	if child {
		go watchdog()
		code := m.Run()
		if err := col.dump(childOut); err != nil {
			fmt.Println("child: cannot write observations:", err)
			code = 1
		}
		syscall.Exit(code)
	}
	run.Floor("A_full_syncs_judged", 500)
	run.Floor("A_stream_messages_judged", 2000)
	run.Floor("B_full_syncs_judged", 30)
	run.Floor("B_intervals_judged", 30)
	run.Floor("B_obligated_pushes_judged", 500)
	run.Floor("B_convergence_points_judged", 30) // the race runtime makes collections expensive; the cases are small and short-lived
	run.Floor("C_overlapping_stream_episodes", 60)
	run.Floor("C_old_handler_exit_after_new_registration", 50)
	run.Floor("C_new_stream_registered_after_old_handler_exit", 15)
	run.Floor("C_pushes_delivered_after_old_handler_exit", 300)
	run.Floor("C_obligated_pushes_judged", 1000)
	run.Floor("C_convergence_points_judged", 200)
	run.Floor("C_storm_reconnects", 50)
	run.Floor("C_scenarios_two_standbys_one_address", 8)
	run.Floor("D_attempts_stream_accepted_snapshot_faulted", 100)
	run.Floor("D_attempts_stream_faulted", 40)
	run.Floor("D_changes_during_attempts", 120)
	run.Floor("D_convergence_points_judged", 200)
	run.Floor("D_convergence_points_after_faulted_snapshot", 60)
	run.Floor("D_convergence_points_after_faulted_attempt_with_changes_to_bring_over", 60)
	run.Floor("E_convergence_points_judged", 250)
	run.Floor("E_convergence_points_on_standby_with_small_full_sync_interval", 150)
	run.Floor("E_mid_stream_windows_offered", 80)
	run.Floor("E_convergence_points_after_held_snapshot_window", 40)
	run.Floor("E_convergence_points_after_snapshot_handed_over_after_changes_it_does_not_contain", 25)
	run.Floor("E_segments_judged_exactly_the_pushes_in_push_order", 100)
	run.Floor("F_snapshots_built_with_changes_after_table_read", 40)
	run.Floor("F_snapshots_served_while_quiet_after_snapshot_built_with_changes_after_table_read", 50)
	run.Floor("F_quiet_full_syncs_of_standby_completed", 60)
	run.Floor("F_quiet_full_syncs_judged_clause_i", 15)
	run.Floor("F_points_after_resync_while_quiet_following_snapshot_built_while_sessions_changed", 50)
	go watchdog()
	code := m.Run()
	flushViolations()
	run.JudgeRaces(anchored)
	if code != 0 && !harnessFailed.Load() && len(vk.RaceReports()) > 0 {
		// testing's own "race detected during execution of test": the reports have just been judged
		code = 0
	}
	ec := run.Finish()
	if code != 0 && ec == 0 {
		ec = 2
	}
	// not os.Exit: with -race the runtime's exit hook replaces the status by 66 once a race was reported
	syscall.Exit(ec)
}

// ---------------------------------------------------------------- violation collector (keeps the smallest witness of every finding)

type vrec struct {
	Comp  string `json:"component"`
	Rule  string `json:"rule"`
	Class string `json:"class"`
	Desc  string `json:"description"`
	Wit   any    `json:"witness"`
	Size  int    `json:"size"`
	N     int    `json:"n"`
}

var (
	vmu  sync.Mutex
	vmap = map[string]*vrec{}
)

func violation(size int, comp, rule, class, desc string, wit any) {
	vmu.Lock()
	defer vmu.Unlock()
	k := comp + "|" + rule + "|" + class
	v := vmap[k]
	if v == nil {
		vmap[k] = &vrec{comp, rule, class, desc, wit, size, 1}
		return
	}
	v.N++
	if size < v.Size {
		v.Desc, v.Wit, v.Size = desc, wit, size
	}
}

// violationN merges a record collected by a child process.
func violationN(c *vrec) {
	vmu.Lock()
	defer vmu.Unlock()
	k := c.Comp + "|" + c.Rule + "|" + c.Class
	v := vmap[k]
	if v == nil {
		vmap[k] = c
		return
	}
	v.N += c.N
	if c.Size < v.Size {
		v.Desc, v.Wit, v.Size = c.Desc, c.Wit, c.Size
	}
}

func flushViolations() {
	vmu.Lock()
	defer vmu.Unlock()
	for _, v := range vmap {
		for i := 0; i < v.N; i++ {
			run.Violation(v.Comp, v.Rule, v.Class, v.Desc, v.Wit)
		}
	}
}

// ---------------------------------------------------------------- child processes (layer B)

// childOut is set in a layer-B child process: the file its observations go to.
var childOut = os.Getenv("VERIF_C13_CHILD")
var child = childOut != ""

var digits = regexp.MustCompile(`[0-9]+`)

// ---------------------------------------------------------------- watchdog (wall clock; firing = inconclusive only)

var (
	wdMu    sync.Mutex
	wdCases = map[int64]wdCase{}
	wdSeq   int64
)

type wdCase struct {
	start time.Time
	desc  string
}

func wdEnter(desc string) int64 {
	id := atomic.AddInt64(&wdSeq, 1)
	wdMu.Lock()
	wdCases[id] = wdCase{time.Now(), desc}
	wdMu.Unlock()
	return id
}
func wdLeave(id int64) { wdMu.Lock(); delete(wdCases, id); wdMu.Unlock() }

func watchdog() {
	for {
		time.Sleep(2 * time.Second)
		wdMu.Lock()
		for _, c := range wdCases {
			if time.Since(c.start) > 1500*time.Second {
				fmt.Println("WATCHDOG: a case did not finish within 1500 s of real time: " + c.desc)
				if child {
					syscall.Exit(2)
				}
				run.Inconclusive("watchdog", "a case did not finish within 1500 s of real time: "+c.desc)
				flushViolations()
				run.Finish()
				syscall.Exit(2)
			}
		}
		wdMu.Unlock()
	}
}

// ---------------------------------------------------------------- sessions

var baseTime = time.Unix(1_700_000_000, 0).UTC()

var (
	qosProfiles = []string{"", "residential-100", "premium", "walled", "business-1g"}
	states      = []string{"active", "pending", "suspended"}
)

// newSession builds version op of session sid. Every version carries its unique op id in BytesIn.
func newSession(sid string, op uint64, rng *rand.Rand) ha.SessionState {
	n := uint64(0)
	if rng != nil {
		n = rng.Uint64()
	}
	return ha.SessionState{
		SessionID:       sid,
		SubscriberID:    "sub-" + sid,
		MAC:             fmt.Sprintf("02:00:00:%02x:%02x:%02x", byte(n>>16), byte(n>>8), byte(n)),
		IP:              fmt.Sprintf("10.%d.%d.%d", byte(n>>40), byte(n>>32), byte(n>>24)|1),
		VLAN:            int(n>>48) % 4094,
		STag:            uint16(n >> 20),
		CTag:            uint16(n >> 4),
		QoSProfile:      qosProfiles[int(n>>8)%len(qosProfiles)],
		DownloadRateBps: (n >> 3) % 1_000_000_000,
		SessionType:     []string{"ipoe", "pppoe"}[n&1],
		Username:        "user-" + sid,
		CreatedAt:       baseTime.Add(time.Duration(op) * time.Second),
		LastActivity:    baseTime.Add(time.Duration(op) * time.Second),
		State:           "active",
		BytesIn:         op,
	}
}

// updateSession derives the next version of a session. With rng==nil (exhaustive mode) the change
// is an operator-style one: service fields change, LastActivity does not.
func updateSession(prev ha.SessionState, op uint64, rng *rand.Rand) ha.SessionState {
	s := prev
	s.BytesIn = op
	if rng == nil {
		s.QoSProfile = qosProfiles[int(op)%len(qosProfiles)]
		s.WalledGarden = !s.WalledGarden
		s.State = states[int(op)%len(states)]
		return s
	}
	for k := rng.IntN(4); k > 0; k-- {
		switch rng.IntN(8) {
		case 0:
			s.QoSProfile = qosProfiles[rng.IntN(len(qosProfiles))]
		case 1:
			s.WalledGarden = !s.WalledGarden
		case 2:
			s.State = states[rng.IntN(len(states))]
		case 3:
			s.IP = fmt.Sprintf("10.%d.%d.%d", rng.IntN(256), rng.IntN(256), 1+rng.IntN(254))
		case 4:
			s.BytesOut += uint64(rng.IntN(1 << 20))
		case 5:
			s.UploadRateBps = uint64(rng.IntN(1_000_000_000))
		case 6:
			s.IPv6 = fmt.Sprintf("2001:db8::%x", rng.IntN(65536))
		case 7:
			s.Gateway = fmt.Sprintf("10.%d.0.1", rng.IntN(256))
		}
	}
	if rng.IntN(2) == 0 {
		s.LastActivity = s.LastActivity.Add(time.Duration(1+rng.IntN(3600)) * time.Second)
	}
	return s
}

func sessEqual(a, b ha.SessionState) bool {
	if !a.CreatedAt.Equal(b.CreatedAt) || !a.LastActivity.Equal(b.LastActivity) {
		return false
	}
	a.CreatedAt, a.LastActivity, b.CreatedAt, b.LastActivity = time.Time{}, time.Time{}, time.Time{}, time.Time{}
	return a == b
}

type table map[string]ha.SessionState

func tableOf(list []ha.SessionState) table {
	t := table{}
	for _, s := range list {
		t[s.SessionID] = s
	}
	return t
}

func tableOfPtrs(list []*ha.SessionState) table {
	t := table{}
	for _, s := range list {
		t[s.SessionID] = *s
	}
	return t
}

func (t table) clone() table {
	c := make(table, len(t))
	for k, v := range t {
		c[k] = v
	}
	return c
}

// String is a compact rendering "sid@op ..." (op = unique version id).
func (t table) String() string {
	ks := make([]string, 0, len(t))
	for k, v := range t {
		ks = append(ks, fmt.Sprintf("%s@%d", k, v.BytesIn))
	}
	sort.Strings(ks)
	return "{" + strings.Join(ks, " ") + "}"
}

type tdiff struct {
	SID  string `json:"session"`
	Kind string `json:"kind"` // stale-session-kept | session-missing | session-value-differs
	Got  string `json:"standby,omitempty"`
	Want string `json:"expected,omitempty"`
}

func verStr(s ha.SessionState) string {
	return fmt.Sprintf("op%d qos=%q walled=%v state=%s ip=%s last=%s", s.BytesIn, s.QoSProfile, s.WalledGarden, s.State, s.IP, s.LastActivity.Format(time.RFC3339))
}

// diffTables compares what the standby holds with what it should hold.
func diffTables(got, want table) []tdiff {
	var out []tdiff
	for id, g := range got {
		w, ok := want[id]
		if !ok {
			out = append(out, tdiff{SID: id, Kind: "stale-session-kept", Got: verStr(g)})
		} else if !sessEqual(g, w) {
			out = append(out, tdiff{SID: id, Kind: "session-value-differs", Got: verStr(g), Want: verStr(w)})
		}
	}
	for id, w := range want {
		if _, ok := got[id]; !ok {
			out = append(out, tdiff{SID: id, Kind: "session-missing", Want: verStr(w)})
		}
	}
	sort.Slice(out, func(i, j int) bool { return out[i].SID < out[j].SID })
	return out
}

func diffKinds(ds []tdiff) []string {
	m := map[string]bool{}
	for _, d := range ds {
		m[d.Kind] = true
	}
	ks := make([]string, 0, len(m))
	for k := range m {
		ks = append(ks, k)
	}
	sort.Strings(ks)
	return ks
}

// ---------------------------------------------------------------- recording session store

type storeOp struct {
	Stamp int64  `json:"stamp"`
	Kind  string `json:"kind"` // put | delete
	SID   string `json:"session"`
	Op    uint64 `json:"op,omitempty"`
}

// recStore is a ha.SessionStore that delegates to the real InMemorySessionStore and logs the
// mutations the syncer performs (with the op id carried by the session version).
type recStore struct {
	inner *ha.InMemorySessionStore
	clock *int64

	mu    sync.Mutex
	cond  *sync.Cond
	log   []storeOp
	seen  map[uint64]int64 // op id -> stamp of (last) Put
	snaps int
	block func(o *storeOp) // optional: called before a mutation is performed (may block)
	onRead *readHook       // optional, one-shot: callbacks around the next GetAllSessions
}

func newRecStore(clock *int64) *recStore {
	s := &recStore{inner: ha.NewInMemorySessionStore(), clock: clock, seen: map[uint64]int64{}}
	s.cond = sync.NewCond(&s.mu)
	return s
}

func (s *recStore) GetSession(id string) (*ha.SessionState, bool) { return s.inner.GetSession(id) }
func (s *recStore) GetSessionCount() int                          { return s.inner.GetSessionCount() }
func (s *recStore) GetAllSessions() []ha.SessionState {
	s.mu.Lock()
	h := s.onRead
	s.onRead = nil
	s.mu.Unlock()
	if h != nil && h.before != nil {
		h.before()
	}
	r := s.inner.GetAllSessions()
	s.mu.Lock()
	s.snaps++
	s.mu.Unlock()
	if h != nil && h.after != nil {
		h.after()
	}
	return r
}

// readHook is a one-shot pair of callbacks around the next whole-table read of a store (layer F:
// the session manager changes sessions while the active is building a full-sync reply). Neither is
// called with a lock of the store held.
type readHook struct{ before, after func() }

func (s *recStore) armRead(h *readHook) {
	s.mu.Lock()
	s.onRead = h
	s.mu.Unlock()
}

// disarmRead withdraws a hook no read has taken; false: a read took it.
func (s *recStore) disarmRead(h *readHook) bool {
	s.mu.Lock()
	defer s.mu.Unlock()
	if s.onRead == h {
		s.onRead = nil
		return true
	}
	return false
}

func (s *recStore) PutSession(sess *ha.SessionState) error {
	o := storeOp{Kind: "put", SID: sess.SessionID, Op: sess.BytesIn}
	s.mu.Lock()
	blk := s.block
	s.mu.Unlock()
	if blk != nil {
		blk(&o)
	}
	err := s.inner.PutSession(sess)
	s.mu.Lock()
	o.Stamp = atomic.AddInt64(s.clock, 1)
	s.log = append(s.log, o)
	s.seen[o.Op] = o.Stamp
	s.cond.Broadcast()
	s.mu.Unlock()
	return err
}

func (s *recStore) DeleteSession(id string) error {
	o := storeOp{Kind: "delete", SID: id}
	s.mu.Lock()
	blk := s.block
	s.mu.Unlock()
	if blk != nil {
		blk(&o)
	}
	err := s.inner.DeleteSession(id)
	s.mu.Lock()
	o.Stamp = atomic.AddInt64(s.clock, 1)
	s.log = append(s.log, o)
	s.cond.Broadcast()
	s.mu.Unlock()
	return err
}

// table returns the store's present content (harness read; not logged).
func (s *recStore) table() table { return tableOf(s.inner.GetAllSessions()) }

func (s *recStore) logLen() int {
	s.mu.Lock()
	defer s.mu.Unlock()
	return len(s.log)
}

func (s *recStore) logCopy() []storeOp {
	s.mu.Lock()
	defer s.mu.Unlock()
	return append([]storeOp(nil), s.log...)
}

// waitPut waits until a Put of version op has been logged, or the timeout (a re-push timer, never a verdict).
func (s *recStore) waitPut(op uint64, d time.Duration) (int64, bool) {
	deadline := time.Now().Add(d)
	t := time.AfterFunc(d, func() { s.mu.Lock(); s.cond.Broadcast(); s.mu.Unlock() })
	defer t.Stop()
	s.mu.Lock()
	defer s.mu.Unlock()
	for {
		if st, ok := s.seen[op]; ok {
			return st, true
		}
		if !time.Now().Before(deadline) {
			return 0, false
		}
		s.cond.Wait()
	}
}
