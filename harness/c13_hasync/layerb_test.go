package c13

import (
	"encoding/json"
	"errors"
	"fmt"
	"io"
	"math"
	"math/rand/v2"
	"net"
	"net/http"
	"os"
	"os/exec"
	"path/filepath"
	"strings"
	"sync"
	"sync/atomic"
	"testing"
	"time"

	"github.com/codelaboratoryltd/bng/pkg/ha"
	"go.uber.org/zap"
	"go.uber.org/zap/zapcore"
	"go.uber.org/zap/zaptest/observer"
)

// ---------------------------------------------------------------- layer B: end to end over loopback HTTP/SSE

const dropWarning = "Client channel full, dropping message"

type pushRec struct {
	Idx      int    `json:"idx"`
	Pusher   int    `json:"pusher"`
	Type     string `json:"type"`
	SID      string `json:"session"`
	Op       uint64 `json:"op"`
	Call     int64  `json:"call"`
	Ret      int64  `json:"ret"`
	Phase    string `json:"phase"` // pre | gap | attach | conn | away
	Cycle    int    `json:"cycle"`
	Sentinel bool   `json:"sentinel,omitempty"`
}

type cycleRec struct {
	N              int
	FailedGets     []string
	GetArrived     int64
	GetReleased    int64
	SnapTaken      int64
	StreamArrived  int64
	StreamReleased int64
	ConnObserved   int64
	CutIssued      int64
	CutMode        string
	MidBurst       bool
	End            int64
	Snapshot       table
	StreamRefused  bool
	NoFullSync     bool
	AttachFirst    bool
	HeldInApply    bool
	Stalled        bool

	fullViolated map[string]bool // session ids clause (i) flagged in this cycle
	lost         map[uint64]bool // op ids clause (ii) found lost in this cycle's interval
	lostQueued   map[uint64]bool // op ids pushed before the attach, broadcast to this stream (FIFO) and never applied; value = seen on the wire
	nPre, nGap   int
	nConn        int
	dropsBefore  int
	drops        int
	msgsBefore   int // standby's MessagesReceived when its stream request reached the proxy
	judged       bool
}

type scenario struct {
	idx     int
	rng     *rand.Rand
	sentRng *rand.Rand // sentinel versions: their number depends on timing, so they must not consume rng
	clock   int64

	act, sb           *ha.HASyncer
	actStore, sbStore *recStore
	px                *proxy
	logs              *observer.ObservedLogs
	hb                time.Duration
	pushers           int
	ids               [][]string
	smallBuf          bool

	mu     sync.Mutex
	model  table
	nextOp uint64
	pushes []*pushRec
	byOp   map[uint64]*pushRec
	lastOn map[string]*pushRec
	phase  atomic.Value // string
	cycle  atomic.Int64
	nPush  atomic.Int64

	cycles   []*cycleRec
	putBack  []*pxEvent
	obsStop  chan struct{}
	obsDone  chan struct{}
	sentTry  int
	queueFul int64
	counts   map[string]int
	sig      []string
	nObl     int
}

// size orders witnesses of one finding: the smallest is the one written out (layer A histories first).
func (sc *scenario) size() int { return 1000 + int(sc.nPush.Load()) }

func (sc *scenario) stamp() int64 { return atomic.AddInt64(&sc.clock, 1) }
func (sc *scenario) cnt(k string, n int) {
	sc.mu.Lock()
	sc.counts[k] += n
	sc.mu.Unlock()
}

func (sc *scenario) describe() map[string]any {
	var cs []map[string]any
	for _, c := range sc.cycles {
		cs = append(cs, map[string]any{"cycle": c.N, "failed_gets": c.FailedGets, "changes_before_snapshot": c.nPre, "changes_between_snapshot_and_attach": c.nGap,
			"pushes_while_connected": c.nConn, "cut": c.CutMode, "cut_mid_burst": c.MidBurst, "stream_attach_refused": c.StreamRefused, "reattached_without_full_sync": c.NoFullSync, "stream_attached_before_snapshot": c.AttachFirst, "held_in_full_sync_apply": c.HeldInApply,
			"link_stalled": c.Stalled, "snapshot": c.Snapshot.String(), "drop_warnings_logged_by_active": c.drops,
			"stamps": map[string]int64{"get": c.GetArrived, "snapshot": c.SnapTaken, "stream_request": c.StreamArrived, "connected_observed": c.ConnObserved, "cut_issued": c.CutIssued, "end": c.End}})
	}
	return map[string]any{"layer": "B", "scenario": sc.idx, "seed": run.Seed, "heartbeat_interval": sc.hb.String(), "pushers": sc.pushers, "thin_link": sc.smallBuf, "cycles": cs}
}

func freePort() (string, error) {
	l, err := net.Listen("tcp", "127.0.0.1:0")
	if err != nil {
		return "", err
	}
	a := l.Addr().String()
	l.Close()
	return a, nil
}

var errInconclusive = errors.New("inconclusive")

func (sc *scenario) fail(reason string) error {
	return fmt.Errorf("%w: %s", errInconclusive, reason)
}

// expect waits for the next proxy event of the given kind (wall clock = watchdog only).
func (sc *scenario) expect(kind string, alt ...string) (*pxEvent, error) {
	t := time.NewTimer(60 * time.Second)
	defer t.Stop()
	for {
		var e *pxEvent
		if len(sc.putBack) > 0 {
			e, sc.putBack = sc.putBack[0], sc.putBack[1:]
		} else {
			select {
			case e = <-sc.px.ev:
			case <-t.C:
				return nil, sc.fail(fmt.Sprintf("no proxy event %q within 60 s", kind))
			}
		}
		{
			if e.Kind == kind || len(alt) > 0 && e.Kind == alt[0] {
				return e, nil
			}
			if e.release == nil { // async note (attached / ended / upstream-error) not waited for here
				if strings.HasPrefix(e.Kind, "upstream-error") {
					return nil, sc.fail("proxy could not reach the active: " + e.Kind)
				}
				continue
			}
			e.release <- pxAction{Fail: "abort"}
			return nil, sc.fail(fmt.Sprintf("expected proxy event %q, the standby issued %q", kind, e.Kind))
		}
	}
}

// pollEnded reports whether the stream relay ended without the driver having cut it (the active or
// the standby closed the stream on its own). Gated events seen on the way are kept for expect.
func (sc *scenario) pollEnded(c *cycleRec) bool {
	if c.CutIssued != 0 {
		return false
	}
	for {
		select {
		case e := <-sc.px.ev:
			if e.Kind == "ended" {
				c.CutIssued, c.CutMode = e.Stamp, "by-peer"
				sc.cnt("B_stream_ended_by_peer", 1)
				return true
			}
			if e.release != nil {
				sc.putBack = append(sc.putBack, e)
			}
		default:
			return false
		}
	}
}

func (sc *scenario) start() error {
	core, logs := observer.New(zapcore.WarnLevel)
	sc.logs = logs
	logger := zap.New(core)
	sc.actStore = newRecStore(&sc.clock)
	sc.sbStore = newRecStore(&sc.clock)
	sc.hb = []time.Duration{5 * time.Millisecond, 10 * time.Millisecond, 20 * time.Millisecond, 100 * time.Millisecond}[sc.rng.IntN(4)]

	// sessions the active already has when the standby first connects
	for i, n := 0, sc.rng.IntN(4); i < n; i++ {
		sid := sc.ids[i%sc.pushers][0]
		if _, ok := sc.model[sid]; ok {
			continue
		}
		sc.nextOp++
		s := newSession(sid, sc.nextOp, sc.rng)
		sc.actStore.inner.PutSession(&s)
		sc.model[sid] = s
	}

	var addr string
	for try := 0; ; try++ {
		a, err := freePort()
		if err != nil {
			return sc.fail(err.Error())
		}
		node := fmt.Sprintf("act-%d-%d", sc.idx, try)
		sc.act = ha.NewHASyncer(ha.SyncConfig{NodeID: node, Role: ha.RoleActive, ListenAddr: a, HeartbeatInterval: sc.hb, RequestTimeout: 10 * time.Minute}, sc.actStore, logger)
		if err := sc.act.Start(); err != nil {
			return sc.fail(err.Error())
		}
		if waitHealthy(a, node) {
			addr = a
			break
		}
		sc.act.Stop()
		if try == 5 {
			return sc.fail("active did not come up on a free loopback port")
		}
	}
	px, err := newProxy(&sc.clock, addr, sc.smallBuf)
	if err != nil {
		return sc.fail(err.Error())
	}
	sc.px = px
	sc.sb = ha.NewHASyncer(ha.SyncConfig{NodeID: fmt.Sprintf("sby-%d", sc.idx), Role: ha.RoleStandby, Partner: &ha.PartnerInfo{NodeID: "active", Endpoint: px.addr()},
		RequestTimeout: 10 * time.Minute, FullSyncInterval: time.Hour, ReconnectInterval: time.Millisecond}, sc.sbStore, logger)
	sc.sb.VerifC13SetBackoff(time.Duration(1+sc.rng.IntN(5))*time.Millisecond, 20*time.Millisecond)
	if err := sc.sb.Start(); err != nil {
		return sc.fail(err.Error())
	}
	sc.observe(addr)
	return nil
}

func waitHealthy(addr, node string) bool {
	cl := &http.Client{Timeout: 2 * time.Second, Transport: &http.Transport{DisableKeepAlives: true}}
	for i := 0; i < 400; i++ {
		resp, err := cl.Get("http://" + addr + "/ha/health")
		if err == nil {
			var m map[string]any
			json.NewDecoder(resp.Body).Decode(&m)
			resp.Body.Close()
			return m["node_id"] == node
		}
		time.Sleep(5 * time.Millisecond)
	}
	return false
}

// observe plays the readers a running node has next to the syncer: statistics, health endpoint,
// lookups in the received-session table and in the store (interleavings for the race detector;
// nothing is judged here).
func (sc *scenario) observe(addr string) {
	sc.obsStop = make(chan struct{})
	sc.obsDone = make(chan struct{})
	go func() {
		defer close(sc.obsDone)
		cl := &http.Client{Timeout: 2 * time.Second, Transport: &http.Transport{DisableKeepAlives: true}}
		for i := 0; ; i++ {
			select {
			case <-sc.obsStop:
				return
			default:
			}
			sc.act.Stats()
			sc.sb.Stats()
			sc.sb.IsConnected()
			sc.sb.GetReceivedSession("s0")
			sc.sbStore.GetSession("s1")
			sc.actStore.GetSession("s0")
			sc.actStore.GetSessionCount()
			if i%20 == 0 {
				if resp, err := cl.Get("http://" + addr + "/ha/health"); err == nil {
					io.Copy(io.Discard, resp.Body)
					resp.Body.Close()
				}
			}
			time.Sleep(500 * time.Microsecond)
		}
	}()
}

func (sc *scenario) stop() {
	if sc.obsStop != nil {
		close(sc.obsStop)
		<-sc.obsDone
	}
	if sc.sb != nil {
		sc.sb.Stop()
	}
	if sc.px != nil {
		sc.px.close()
	}
	if sc.act != nil {
		sc.act.Stop()
	}
}

// ---------------------------------------------------------------- operations on the active

// doOp performs one random valid change on the active (store first, then PushChange).
func (sc *scenario) doOp(pusher int, rng *rand.Rand, delBias int) *pushRec {
	ids := sc.ids[pusher]
	sid := ids[rng.IntN(len(ids))]
	return sc.doOpOn(pusher, rng, sid, "", delBias)
}

// doOpOn performs one valid change of session sid on the active: an add if the session does not
// exist; otherwise a delete if kind is "delete" (or kind is "" and the delBias draw says so), else an update.
func (sc *scenario) doOpOn(pusher int, rng *rand.Rand, sid, kind string, delBias int) *pushRec {
	sc.mu.Lock()
	cur, present := sc.model[sid]
	sc.nextOp++
	op := sc.nextOp
	var typ ha.SyncMessageType
	var s ha.SessionState
	switch {
	case !present:
		typ, s = ha.SyncTypeAdd, newSession(sid, op, rng)
		sc.model[sid] = s
	case kind == "delete" || kind == "" && rng.IntN(100) < delBias:
		typ, s = ha.SyncTypeDelete, cur
		s.BytesIn = op
		delete(sc.model, sid)
	default:
		typ, s = ha.SyncTypeUpdate, updateSession(cur, op, rng)
		sc.model[sid] = s
	}
	rec := &pushRec{Idx: len(sc.pushes), Pusher: pusher, Type: string(typ), SID: sid, Op: op, Phase: sc.phase.Load().(string), Cycle: int(sc.cycle.Load())}
	sc.pushes = append(sc.pushes, rec)
	sc.nPush.Add(1)
	sc.byOp[op] = rec
	sc.lastOn[sid] = rec
	sc.mu.Unlock()
	// the session manager's order: its own table first, then the notification (session ids are
	// partitioned between pushers, so per-session order is the pusher's program order)
	if typ == ha.SyncTypeDelete {
		sc.actStore.DeleteSession(sid)
	} else {
		sc.actStore.PutSession(&s)
	}
	sc.push(rec, typ, &s)
	return rec
}

func (sc *scenario) push(rec *pushRec, typ ha.SyncMessageType, s *ha.SessionState) {
	for try := 0; ; try++ {
		call := sc.stamp()
		err := sc.act.PushChange(typ, s)
		ret := sc.stamp()
		if err == nil {
			rec.Call, rec.Ret = call, ret
			return
		}
		// "change queue full": the caller is told, so nothing was pushed; a careful caller retries
		atomic.AddInt64(&sc.queueFul, 1)
		if try > 20000 {
			harnessFailed.Store(true)
			rec.Call, rec.Ret = call, 0
			return
		}
		time.Sleep(200 * time.Microsecond)
	}
}

// sentinel pushes a uniquely numbered version of the dedicated sentinel session.
func (sc *scenario) sentinel() *pushRec {
	const sid = "sentinel"
	sc.mu.Lock()
	cur, present := sc.model[sid]
	sc.nextOp++
	op := sc.nextOp
	typ := ha.SyncTypeAdd
	var s ha.SessionState
	if present {
		s = updateSession(cur, op, sc.sentRng)
		if op%2 == 0 {
			typ = ha.SyncTypeUpdate
		}
	} else {
		s = newSession(sid, op, sc.sentRng)
	}
	sc.actStore.inner.PutSession(&s)
	sc.model[sid] = s
	rec := &pushRec{Idx: len(sc.pushes), Pusher: -1, Type: string(typ), SID: sid, Op: op, Phase: sc.phase.Load().(string), Cycle: int(sc.cycle.Load()), Sentinel: true}
	sc.pushes = append(sc.pushes, rec)
	sc.nPush.Add(1)
	sc.byOp[op] = rec
	sc.lastOn[sid] = rec
	sc.mu.Unlock()
	sc.push(rec, typ, &s)
	return rec
}

// settle pushes sentinels until one has been applied by the standby. The timer only decides when
// to push the next sentinel; a sentinel that never arrives while a later one does is an ordinary
// lost push and is judged as such.
func (sc *scenario) settle(c *cycleRec) (bool, error) {
	start := time.Now()
	for try := 0; try < 20; try++ {
		rec := sc.sentinel()
		c.nConn++
		sc.cnt("B_sentinels_pushed", 1)
		d := 30 * time.Millisecond << try // 30 ms, 60 ms, ... capped: only paces the re-pushes
		if try > 6 || d > 3*time.Second {
			d = 3 * time.Second
		}
		for {
			before := sc.progress()
			if _, ok := sc.sbStore.waitPut(rec.Op, d); ok {
				sc.cnt("B_settle_points", 1)
				return true, nil
			}
			if sc.pollEnded(c) {
				return false, nil // the stream went away: what was in flight is not owed
			}
			if sc.progress() == before {
				break // the standby handled nothing during a whole wait: this sentinel is not on its way
			}
			// the standby is still working through a backlog: the sentinel is behind it
			sc.cnt("B_settle_waits_behind_backlog", 1)
			if time.Since(start) > 240*time.Second {
				return false, sc.fail("standby still busy with the backlog of one burst after 240 s")
			}
		}
		sc.cnt("B_sentinel_repushed", 1)
	}
	// 20 sentinels, each given up only while the standby was idle. Did it handle them? The standby's
	// own message counter (Stats) says how many events of this stream it has taken in; the wire log
	// says at which position the first sentinel was relayed.
	pos, firstSent := 0, 0
	for _, w := range sc.px.wireCopy() {
		if w.Stamp <= c.StreamReleased {
			continue
		}
		pos++
		if p := sc.byOp[w.Op]; firstSent == 0 && w.Type != "heartbeat" && p != nil && p.Sentinel {
			firstSent = pos
		}
	}
	handled := int(sc.sb.Stats().MessagesReceived) - c.msgsBefore
	if firstSent != 0 && handled >= firstSent+2 && sc.sb.IsConnected() {
		violation(sc.size(), compStream, ruleOrder, "received-not-applied:sentinel",
			fmt.Sprintf("layer B scenario %d: 20 consecutive changes pushed while the stream was connected were not applied to the standby's store; the first was relayed as event %d of the stream and the standby reports %d events handled since it attached", sc.idx, firstSent, handled),
			sc.describe())
		return false, nil
	}
	return false, sc.fail(fmt.Sprintf("no sentinel was applied; first sentinel relayed as event %d, standby reports %d events handled: no evidence that it received one", firstSent, handled))
}

// progress tells how far the standby has got with changes (number of store operations it has
// performed; heartbeats do not count, they never stop); used only to pace the sentinels.
func (sc *scenario) progress() int { return sc.sbStore.logLen() }

// burst pushes n changes while connected, split over the scenario's pushers. If cutAt >= 0 the
// stream is cut after that many changes of pusher 0 (the rest of the burst is pushed to a dead link).
func (sc *scenario) burst(c *cycleRec, n, cutAt int, cutMode string) {
	var wg sync.WaitGroup
	per := n / sc.pushers
	if per == 0 {
		per = 1
	}
	seed := sc.rng.Uint64()
	for p := 0; p < sc.pushers; p++ {
		p := p
		wg.Add(1)
		go func() {
			defer wg.Done()
			rng := rand.New(rand.NewPCG(seed, uint64(p)))
			for i := 0; i < per; i++ {
				if p == 0 && i == cutAt {
					c.CutIssued = sc.stamp()
					c.CutMode, c.MidBurst = cutMode, true
					sc.px.cut(cutMode)
				}
				sc.doOp(p, rng, 25)
			}
		}()
		if sc.pushers == 1 {
			break
		}
	}
	wg.Wait()
	c.nConn += per * sc.pushers
}

func (sc *scenario) drops() int { return sc.logs.FilterMessage(dropWarning).Len() }

// ---------------------------------------------------------------- the scenario driver

func (sc *scenario) run() error {
	rng := sc.rng
	if err := sc.start(); err != nil {
		return err
	}
	nCycles := []int{1, 2, 2, 3, 3, 4}[rng.IntN(6)]
	var prev *cycleRec
	failures := 0
	for cy := 0; cy < nCycles; cy++ {
		c := &cycleRec{N: cy, fullViolated: map[string]bool{}, lost: map[uint64]bool{}, lostQueued: map[uint64]bool{}}
		sc.cycles = append(sc.cycles, c)
		sc.cycle.Store(int64(cy))

		// ---- GET /ha/sessions (possibly failing a few times)
		var snapEv *pxEvent
		for {
			ev, err := sc.expect("get", "stream")
			if err != nil {
				return err
			}
			c.GetArrived = ev.Stamp
			if prev != nil && !prev.judged {
				// the standby asks for a new full sync: everything it read from the old stream has been handled
				prev.End = ev.Stamp
				sc.judgeInterval(prev, true)
				sc.sig = append(sc.sig, sc.cycleSig(prev))
			}
			if ev.Kind == "stream" {
				// the standby re-attaches without asking for a snapshot: no full sync to judge in this
				// cycle; what it missed while away shows up in clause (iii)
				c.NoFullSync = true
				c.GetReleased, c.SnapTaken = ev.Stamp, ev.Stamp
				sc.putBack = append([]*pxEvent{ev}, sc.putBack...)
				break
			}
			sc.phase.Store("pre")
			nPre := 0
			if cy > 0 || rng.IntN(2) == 0 {
				nPre = rng.IntN(5)
			}
			for i := 0; i < nPre; i++ {
				sc.doOp(rng.IntN(sc.pushers), rng, 50) // while the standby is away deletions are frequent
			}
			c.nPre += nPre
			if failures < 3 && rng.IntN(6) == 0 {
				mode := []string{"503", "abort"}[rng.IntN(2)]
				failures++
				c.FailedGets = append(c.FailedGets, mode)
				sc.cnt("B_get_failed_"+mode, 1)
				ev.release <- pxAction{Fail: mode}
				continue
			}
			c.GetReleased = sc.stamp()
			ev.release <- pxAction{}
			ev2, err := sc.expect("snapshot")
			if err != nil {
				return err
			}
			c.SnapTaken = ev2.Stamp
			msg, err := ha.DecodeSyncMessage(ev2.Body)
			if err != nil {
				return sc.fail("snapshot body does not decode: " + err.Error())
			}
			c.Snapshot = tableOf(msg.Sessions)
			sc.mu.Lock()
			want := sc.model.clone()
			sc.mu.Unlock()
			if ds := diffTables(c.Snapshot, want); len(ds) > 0 {
				violation(sc.size(), compGet, ruleSnap, strings.Join(diffKinds(ds), "+"), fmt.Sprintf("layer B scenario %d cycle %d: GET /ha/sessions served %s while the (quiesced) active's table is %s", sc.idx, cy, c.Snapshot, want),
					map[string]any{"scenario": sc.describe(), "differences": ds})
			}
			sc.cnt("B_snapshots_compared_with_active_table", 1)
			if failures < 3 && rng.IntN(8) == 0 {
				failures++
				c.FailedGets = append(c.FailedGets, "truncate")
				sc.cnt("B_get_failed_truncate", 1)
				ev2.release <- pxAction{Fail: "truncate"}
				continue
			}
			snapEv = ev2
			break
		}

		// ---- between snapshot and stream attach (the gap)
		if c.NoFullSync {
			snapEv = &pxEvent{release: make(chan pxAction, 1)}
		}
		sc.phase.Store("gap")
		gap := func(max int) {
			if rng.IntN(3) == 0 {
				n := 1 + rng.IntN(max)
				for i := 0; i < n; i++ {
					sc.doOp(rng.IntN(sc.pushers), rng, 35)
				}
				c.nGap += n
			}
		}
		gap(3)
		var g *applyGate
		if len(c.Snapshot) > 0 && rng.IntN(5) == 0 {
			g = sc.sbStore.armGate() // hold the standby inside the application of the snapshot
		}
		snapEv.release <- pxAction{}
		if g != nil {
			tm := time.NewTimer(30 * time.Second)
		waitGate:
			for {
				select {
				case <-g.hit:
					c.HeldInApply = true
					sc.cnt("B_full_sync_apply_held", 1)
					n := 1 + rng.IntN(2)
					for i := 0; i < n; i++ {
						sc.doOp(rng.IntN(sc.pushers), rng, 35)
					}
					c.nGap += n
					break waitGate
				case e := <-sc.px.ev:
					if e.release != nil { // the standby moved on without writing to its store
						sc.putBack = append(sc.putBack, e)
						break waitGate
					}
				case <-tm.C:
					close(g.release)
					return sc.fail("standby neither applied the non-empty snapshot nor issued another request within 30 s")
				}
			}
			tm.Stop()
			sc.sbStore.disarmGate()
			close(g.release)
		}
		ev3, err := sc.expect("stream")
		if err != nil {
			return err
		}
		c.StreamArrived = ev3.Stamp
		c.msgsBefore = int(sc.sb.Stats().MessagesReceived)
		// clause (i): performFullSync has returned; the stream is not attached, so nothing else
		// writes to the standby's table now.
		if !c.NoFullSync {
			sc.judgeFullSync(c)
		}
		gap(2)
		if failures < 3 && rng.IntN(10) == 0 {
			failures++
			c.StreamRefused = true
			sc.cnt("B_stream_attach_refused", 1)
			c.judged = true
			ev3.release <- pxAction{Fail: "503"}
			sc.sig = append(sc.sig, sc.cycleSig(c))
			prev = c
			nCycles++ // a refused attach is followed by another full sync: not counted as a connection cycle
			if nCycles > 8 {
				nCycles = 8
			}
			continue
		}
		sc.phase.Store("attach")
		if c.NoFullSync {
			sc.px.stall(true) // relay nothing until it is clear which order of requests this standby uses
		}
		c.StreamReleased = sc.stamp()
		ev3.release <- pxAction{}
		if _, err := sc.expect("attached"); err != nil {
			return err
		}
		if c.NoFullSync {
			if err := sc.attachFirst(c, rng); err != nil {
				return err
			}
			c.StreamReleased = sc.stamp() // nothing of the stream has reached the standby before this point
			sc.px.stall(false)
		} else if err := sc.waitConnected(); err != nil {
			return err
		}
		c.dropsBefore = sc.drops()
		c.ConnObserved = sc.stamp()
		sc.phase.Store("conn")

		// ---- connected
		last := cy == nCycles-1
		nAct := 1 + rng.IntN(3)
		cutMode := []string{"clean", "abort"}[rng.IntN(2)]
		for a := 0; a < nAct && c.CutIssued == 0; a++ {
			n := pickBurst(rng)
			cutAt := -1
			if !last && a == nAct-1 && rng.IntN(3) == 0 {
				cutAt = rng.IntN(n/sc.pushers + 1)
			}
			stall := n >= 150 && rng.IntN(3) == 0
			if stall {
				sc.px.stall(true)
				c.Stalled = true
				sc.cnt("B_bursts_over_stalled_link", 1)
			}
			sc.burst(c, n, cutAt, cutMode)
			if stall {
				sc.px.stall(false)
			}
			sc.cnt(fmt.Sprintf("B_bursts_%s", burstBucket(n)), 1)
			sc.pollEnded(c)
			if c.CutIssued == 0 && (last && a == nAct-1 || rng.IntN(2) == 0) {
				ok, err := sc.settle(c)
				if err != nil {
					return err
				}
				if ok {
					c.End = sc.stamp()
					sc.judgeInterval(c, false)
					c.judged = false // judged again, over the whole interval, when it ends
					sc.judgeConvergence(c)
				}
			}
		}
		if last && c.CutMode == "by-peer" && nCycles < 8 {
			nCycles++ // the scenario has to end on a connected, settled link
			last = false
		}
		if last {
			c.End = sc.stamp()
			sc.judgeInterval(c, true)
			sc.sig = append(sc.sig, sc.cycleSig(c))
			break
		}
		sc.phase.Store("away")
		if c.CutIssued == 0 {
			c.CutIssued = sc.stamp()
			c.CutMode = cutMode
			sc.px.cut(cutMode)
		}
		if c.CutMode != "by-peer" {
			sc.cnt("B_cuts_"+c.CutMode, 1)
		}
		if c.MidBurst {
			sc.cnt("B_cuts_mid_burst", 1)
		}
		prev = c
	}
	return nil
}

// attachFirst handles a standby that asked for the stream before (or without) asking for the
// snapshot. The relay is stalled, so nothing of the stream reaches the standby meanwhile. If a GET
// follows, this is the "subscribe, then snapshot" order: the snapshot is served and clause (i) is
// judged once IsConnected() reports the attach complete. If the standby reports connected without
// a GET, it re-attached without a full sync; clause (iii) will say what that costs.
func (sc *scenario) attachFirst(c *cycleRec, rng *rand.Rand) error {
	deadline := time.Now().Add(30 * time.Second)
	for {
		if sc.sb.IsConnected() {
			sc.cnt("B_reattach_without_full_sync", 1)
			return nil
		}
		var e *pxEvent
		select {
		case e = <-sc.px.ev:
		default:
		}
		if e == nil || e.release == nil {
			if e != nil && e.Kind == "ended" {
				return sc.fail("stream ended while attaching")
			}
			if time.Now().After(deadline) {
				return sc.fail("stream attached, but the standby neither asked for a snapshot nor reported connected within 30 s")
			}
			time.Sleep(200 * time.Microsecond)
			continue
		}
		if e.Kind != "get" {
			e.release <- pxAction{Fail: "abort"}
			return sc.fail("unexpected request while attaching: " + e.Kind)
		}
		c.NoFullSync, c.AttachFirst = false, true
		sc.cnt("B_attach_before_snapshot_cycles", 1)
		sc.phase.Store("pre")
		for i, n := 0, rng.IntN(3); i < n; i++ { // after the stream was registered, before the snapshot: in both
			sc.doOp(rng.IntN(sc.pushers), rng, 35)
			c.nPre++
		}
		c.GetReleased = sc.stamp()
		e.release <- pxAction{}
		ev2, err := sc.expect("snapshot")
		if err != nil {
			return err
		}
		c.SnapTaken = ev2.Stamp
		msg, err := ha.DecodeSyncMessage(ev2.Body)
		if err != nil {
			return sc.fail("snapshot body does not decode: " + err.Error())
		}
		c.Snapshot = tableOf(msg.Sessions)
		sc.mu.Lock()
		want := sc.model.clone()
		sc.mu.Unlock()
		if ds := diffTables(c.Snapshot, want); len(ds) > 0 {
			violation(sc.size(), compGet, ruleSnap, strings.Join(diffKinds(ds), "+"), fmt.Sprintf("layer B scenario %d cycle %d: GET /ha/sessions served %s while the (quiesced) active's table is %s", sc.idx, c.N, c.Snapshot, want),
				map[string]any{"scenario": sc.describe(), "differences": ds})
		}
		sc.cnt("B_snapshots_compared_with_active_table", 1)
		sc.phase.Store("gap")
		for i, n := 0, rng.IntN(3); i < n; i++ { // after the snapshot: only on the (stalled) stream
			sc.doOp(rng.IntN(sc.pushers), rng, 35)
			c.nGap++
		}
		ev2.release <- pxAction{}
		if err := sc.waitConnected(); err != nil {
			return err
		}
		sc.judgeFullSync(c)
		return nil
	}
}

func pickBurst(rng *rand.Rand) int {
	x := rng.IntN(100)
	switch {
	case x < 20:
		return 1
	case x < 45:
		return 2 + rng.IntN(9)
	case x < 65:
		return 50
	case x < 85:
		return 150
	case x < 95:
		return 400
	default:
		return 1200
	}
}

func burstBucket(n int) string {
	switch {
	case n <= 1:
		return "1"
	case n <= 10:
		return "2-10"
	case n <= 50:
		return "50"
	case n <= 150:
		return "150"
	case n <= 400:
		return "400"
	}
	return "1200"
}

func (sc *scenario) waitConnected() error {
	deadline := time.Now().Add(30 * time.Second)
	for !sc.sb.IsConnected() {
		if time.Now().After(deadline) {
			return sc.fail("the active answered the stream request but IsConnected() stayed false for 30 s")
		}
		time.Sleep(200 * time.Microsecond)
	}
	return nil
}

func (sc *scenario) cycleSig(c *cycleRec) string {
	b := func(n int) string {
		switch {
		case n == 0:
			return "0"
		case n <= 3:
			return "few"
		case n <= 60:
			return "tens"
		case n <= 250:
			return "100s"
		}
		return "many"
	}
	return fmt.Sprintf("[fail=%s pre=%s gap=%s held=%v refused=%v conn=%s stall=%v cut=%s mid=%v lost=%s drops=%v stale=%v]",
		strings.Join(c.FailedGets, ","), b(c.nPre), b(c.nGap), c.HeldInApply, c.StreamRefused, b(c.nConn), c.Stalled, c.CutMode, c.MidBurst, b(len(c.lost)), c.drops > 0, len(c.fullViolated) > 0)
}

// ---------------------------------------------------------------- oracles

// judgeFullSync is clause (i): called when the standby's stream request reaches the proxy, i.e.
// right after performFullSync returned and before anything else can touch the standby's table.
func (sc *scenario) judgeFullSync(c *cycleRec) {
	sc.cnt("B_full_syncs_judged", 1)
	views := map[string]table{"store": sc.sbStore.table(), "received-map": tableOfPtrs(sc.sb.GetAllReceivedSessions())}
	for _, v := range []string{"store", "received-map"} {
		ds := diffTables(views[v], c.Snapshot)
		if len(ds) == 0 {
			continue
		}
		for _, d := range ds {
			if v == "store" {
				c.fullViolated[d.SID] = true
			}
		}
		for _, k := range diffKinds(ds) {
			violation(sc.size(), compFull, ruleFull, v+":"+k,
				fmt.Sprintf("layer B scenario %d cycle %d: right after the completed full sync the standby's %s is %s, the snapshot the active served is %s", sc.idx, c.N, v, views[v], c.Snapshot),
				map[string]any{"scenario": sc.describe(), "view": v, "standby": views[v].String(), "snapshot_served": c.Snapshot.String(), "differences": ds, "changes_on_active": sc.pushTail(40)})
		}
	}
	for id := range views["store"] {
		if _, ok := c.Snapshot[id]; !ok {
			sc.cnt("B_full_syncs_meeting_sessions_absent_from_snapshot", 1)
			break
		}
	}
}

func (sc *scenario) pushTail(n int) []*pushRec {
	sc.mu.Lock()
	defer sc.mu.Unlock()
	p := sc.pushes
	if len(p) > n {
		p = p[len(p)-n:]
	}
	return append([]*pushRec(nil), p...)
}

type appliedOp struct {
	Stamp int64  `json:"stamp"`
	Kind  string `json:"kind"`
	SID   string `json:"session"`
	Op    uint64 `json:"op"`
}

// judgeInterval is clause (ii) for one connected interval, from the push log, the standby's store
// log and (for naming only) the wire log. All pushers are quiescent when it runs.
func (sc *scenario) judgeInterval(c *cycleRec, final bool) {
	if c.ConnObserved == 0 || c.StreamRefused {
		c.judged = true
		return
	}
	c.judged = true
	c.drops = sc.drops() - c.dropsBefore
	end := c.End
	var wire []wireMsg
	wireOps := map[uint64]bool{}
	wireIdx := map[uint64]int{}
	wireCount := map[uint64]int{}
	for _, w := range sc.px.wireCopy() {
		if w.Stamp <= c.StreamReleased || w.Stamp > end || w.Type == "heartbeat" {
			continue
		}
		wireIdx[w.Op] = len(wire)
		wire = append(wire, w)
		wireOps[w.Op] = true
		wireCount[w.Op]++
	}
	var applied []appliedOp
	wpos := 0
	used := map[int]bool{}
	for _, o := range sc.sbStore.logCopy() {
		if o.Stamp <= c.StreamReleased || o.Stamp > end {
			continue
		}
		a := appliedOp{Stamp: o.Stamp, Kind: o.Kind, SID: o.SID, Op: o.Op}
		if o.Kind == "delete" {
			// the store sees only the session id: an applied delete is the next delete of that session
			// relayed after the message applied before it
			for i := wpos; i < len(wire); i++ {
				if wire[i].Type == "delete" && wire[i].SID == o.SID && !used[i] {
					a.Op, used[i], wpos = wire[i].Op, true, i+1
					break
				}
			}
		} else if i, ok := wireIdx[o.Op]; ok && i >= wpos {
			wpos = i + 1
		}
		applied = append(applied, a)
	}
	sc.mu.Lock()
	defer sc.mu.Unlock()
	wit := func(extra map[string]any) map[string]any {
		m := map[string]any{"scenario": sc.describe(), "cycle": c.N, "applied_in_interval": len(applied), "relayed_in_interval": len(wire), "drop_warnings_logged_by_active": c.drops}
		for k, v := range extra {
			m[k] = v
		}
		return m
	}
	seen := map[uint64]bool{}
	var maxCall int64
	minRet := int64(math.MaxInt64)
	var maxCallPush *pushRec
	for i, a := range applied {
		p := sc.byOp[a.Op]
		if p == nil || (p.Type == "delete") != (a.Kind == "delete") {
			violation(sc.size(), compStream, ruleOrder, "applied-change-never-pushed:"+a.Kind,
				fmt.Sprintf("layer B scenario %d cycle %d: while connected the standby applied %s of %s (version op %d) which no PushChange call of the active carried", sc.idx, c.N, a.Kind, a.SID, a.Op),
				wit(map[string]any{"applied": a, "applied_around": appliedWindow(applied, i)}))
			continue
		}
		if seen[a.Op] {
			cmp, cls := compStream, "applied-twice"
			if wireCount[a.Op] > 1 {
				cmp, cls = compBroadcast, "sent-twice"
			}
			violation(sc.size(), cmp, ruleOrder, cls,
				fmt.Sprintf("layer B scenario %d cycle %d: push #%d (%s %s op %d) was applied twice within one connected interval (relayed %d time(s) on the wire)", sc.idx, c.N, p.Idx, p.Type, p.SID, p.Op, wireCount[a.Op]),
				wit(map[string]any{"push": p, "applied_around": appliedWindow(applied, i)}))
		}
		seen[a.Op] = true
		if p.Ret != 0 && p.Ret < maxCall {
			cls := "reordered"
			if p.SID == maxCallPush.SID {
				cls = "reordered-same-session"
			}
			violation(sc.size(), compBroadcast, ruleOrder, cls,
				fmt.Sprintf("layer B scenario %d cycle %d: push #%d (%s %s op %d) returned before push #%d (%s %s op %d) was called, yet the standby applied it later", sc.idx, c.N, p.Idx, p.Type, p.SID, p.Op, maxCallPush.Idx, maxCallPush.Type, maxCallPush.SID, maxCallPush.Op),
				wit(map[string]any{"earlier_push": p, "later_push": maxCallPush, "applied_around": appliedWindow(applied, i)}))
		}
		if p.Call > maxCall {
			maxCall, maxCallPush = p.Call, p
		}
		if p.Ret != 0 && p.Ret < minRet {
			minRet = p.Ret
		}
	}
	obligated := 0
	var lost []*pushRec
	for _, p := range sc.pushes {
		if p.Ret != 0 && p.Call <= c.ConnObserved && !seen[p.Op] && minRet < p.Call && p.Ret < maxCall {
			// pushed before the stream was up, so clause (ii) does not cover it; but an older push and a
			// newer push were both applied from this stream, so by FIFO it was broadcast to this client
			// and disappeared on the way. Clause (iii) reports it if it leaves the tables different.
			c.lostQueued[p.Op] = wireOps[p.Op]
		}
		if p.Ret == 0 || p.Call <= c.ConnObserved || (c.CutIssued != 0 && p.Ret >= c.CutIssued) || p.Call > end {
			continue
		}
		obligated++
		if !seen[p.Op] && p.Ret < maxCall {
			lost = append(lost, p)
			c.lost[p.Op] = true
		}
	}
	if final {
		sc.counts["B_intervals_judged"]++
		sc.counts["B_obligated_pushes_judged"] += obligated
		sc.counts["B_applied_stream_changes_observed"] += len(applied)
		sc.counts["B_wire_changes_observed"] += len(wire)
		sc.nObl += obligated
	} else {
		sc.counts["B_intervals_judged_at_settle_points"]++
	}
	byClass := map[string][]*pushRec{}
	comp := map[string]string{}
	for _, p := range lost {
		cls, cmp := "", compBroadcast
		switch {
		case wireOps[p.Op]:
			cls, cmp = "received-not-applied:"+p.Type, compStream
		case len(byClass["dropped-on-full-client-channel"]) < c.drops:
			// every 'client channel full' warning accounts for at most one missing message
			cls = "dropped-on-full-client-channel"
		default:
			cls = "not-sent"
		}
		byClass[cls] = append(byClass[cls], p)
		comp[cls] = cmp
	}
	for cls, ps := range byClass {
		first := ps
		if len(first) > 8 {
			first = first[:8]
		}
		if final {
			sc.counts["B_lost_"+cls] += len(ps)
		}
		violation(sc.size(), comp[cls], ruleOrder, cls,
			fmt.Sprintf("layer B scenario %d cycle %d: %d change(s) pushed while the stream was connected were never applied by the standby although changes pushed later were (first: push #%d %s %s op %d; the active logged %d 'client channel full' drops in this interval; relayed on the wire: %v)",
				sc.idx, c.N, len(ps), ps[0].Idx, ps[0].Type, ps[0].SID, ps[0].Op, c.drops, wireOps[ps[0].Op]),
			wit(map[string]any{"lost_pushes": len(ps), "first_lost": first, "obligated_pushes": obligated}))
	}
}

func appliedWindow(a []appliedOp, i int) []appliedOp {
	lo, hi := i-4, i+3
	if lo < 0 {
		lo = 0
	}
	if hi > len(a) {
		hi = len(a)
	}
	return a[lo:hi]
}

// judgeConvergence is clause (iii): link up, a sentinel pushed after every other change has been
// applied (so nothing is in flight), no pusher running. A difference is attributed to the change
// that last touched the session: explained by a clause (i)/(ii) violation already reported for
// this cycle, lost in the gap between snapshot and stream attach (own class), or unexplained.
func (sc *scenario) judgeConvergence(c *cycleRec) {
	got := sc.sbStore.table()
	sc.mu.Lock()
	want := sc.model.clone()
	last := map[string]*pushRec{}
	for k, v := range sc.lastOn {
		last[k] = v
	}
	sc.mu.Unlock()
	sc.cnt("B_convergence_points_judged", 1)
	ds := diffTables(got, want)
	if len(ds) == 0 {
		sc.cnt("B_convergence_points_equal", 1)
		return
	}
	var gapDiffs, unexplained, queued []map[string]any
	queuedOnWire := false
	for _, d := range ds {
		p := last[d.SID]
		if p != nil {
			if onWire, ok := c.lostQueued[p.Op]; ok {
				queued = append(queued, map[string]any{"difference": d, "last_change": p, "relayed_on_the_wire": onWire})
				queuedOnWire = queuedOnWire || onWire
				continue
			}
		}
		switch {
		case p == nil || p.Ret != 0 && p.Ret < c.GetReleased:
			// last changed before the snapshot was taken: the full sync had to bring it over
			if c.fullViolated[d.SID] {
				sc.cnt("B_convergence_diffs_explained_by_clause_i", 1)
			} else {
				unexplained = append(unexplained, map[string]any{"difference": d, "last_change": p, "when": "before the snapshot"})
			}
		case p.Call > c.SnapTaken && (c.ConnObserved == 0 || p.Call < c.ConnObserved):
			gapDiffs = append(gapDiffs, map[string]any{"difference": d, "last_change": p})
		case p.Call > c.ConnObserved:
			if c.lost[p.Op] {
				sc.cnt("B_convergence_diffs_explained_by_clause_ii", 1)
			} else {
				unexplained = append(unexplained, map[string]any{"difference": d, "last_change": p, "when": "while connected"})
			}
		default:
			unexplained = append(unexplained, map[string]any{"difference": d, "last_change": p, "when": "?"})
		}
	}
	if len(queued) > 0 {
		sc.cnt("B_convergence_diffs_queued_change_lost", len(queued))
		cmp, cls := compBroadcast, "queued-change-not-sent"
		switch {
		case queuedOnWire:
			cmp, cls = compStream, "queued-change-received-not-applied"
		case c.drops > 0:
			cls = "queued-change-dropped-on-full-client-channel"
		}
		violation(sc.size(), cmp, ruleConv, cls,
			fmt.Sprintf("layer B scenario %d cycle %d: link up, active quiet, a later sentinel applied, yet standby %s != active %s: %d session(s) were last changed before the stream was attached, the change was still in the active's pending queue, older queued changes and newer ones were applied from this stream (so it was broadcast to this client) but it never was (the active logged %d 'client channel full' drops in this interval); the older queued changes, replayed after the snapshot, left the session stale",
				sc.idx, c.N, got, want, len(queued), c.drops),
			map[string]any{"scenario": sc.describe(), "standby": got.String(), "active": want.String(), "sessions": queued})
	}
	if len(gapDiffs) > 0 {
		sc.cnt("B_convergence_diffs_gap", len(gapDiffs))
		violation(sc.size(), compLoop, ruleConv, "change-lost-between-full-sync-and-stream-attach",
			fmt.Sprintf("layer B scenario %d cycle %d: link up, active quiet, a later sentinel applied, yet standby %s != active %s: %d session(s) last changed on the active after it served the snapshot and before the stream was attached; those pushes reached no client and nothing re-synchronises them", sc.idx, c.N, got, want, len(gapDiffs)),
			map[string]any{"scenario": sc.describe(), "standby": got.String(), "active": want.String(), "sessions": gapDiffs})
	}
	if len(unexplained) > 0 {
		var kinds []tdiff
		for _, u := range unexplained {
			kinds = append(kinds, u["difference"].(tdiff))
		}
		violation(sc.size(), compLoop, ruleConv, "unexplained:"+strings.Join(diffKinds(kinds), "+"),
			fmt.Sprintf("layer B scenario %d cycle %d: link up, active quiet, a later sentinel applied, yet standby %s != active %s, and no clause (i)/(ii) violation or gap change accounts for %d of the differing sessions", sc.idx, c.N, got, want, len(unexplained)),
			map[string]any{"scenario": sc.describe(), "standby": got.String(), "active": want.String(), "sessions": unexplained})
	}
}

// ---------------------------------------------------------------- gate inside the standby's store (hold it in the middle of applying a snapshot)

type applyGate struct {
	hit     chan struct{}
	release chan struct{}
}

func (s *recStore) armGate() *applyGate {
	g := &applyGate{hit: make(chan struct{}), release: make(chan struct{})}
	var fired atomic.Bool
	s.mu.Lock()
	s.block = func(o *storeOp) {
		if fired.CompareAndSwap(false, true) {
			close(g.hit)
			<-g.release
		}
	}
	s.mu.Unlock()
	return g
}

func (s *recStore) disarmGate() {
	s.mu.Lock()
	s.block = nil
	s.mu.Unlock()
}

// ---------------------------------------------------------------- test entry

func TestLayerB(t *testing.T) {
	if child {
		layerBChild(t)
		return
	}
	t.Parallel()
	id := wdEnter("layer B")
	defer wdLeave(id)
	spawnChildren(t, "TestLayerB", "B", run.Pick(72, 1000), run.Pick(4, 6))
}

// spawnChildren runs the scenarios 0..n-1 of one end-to-end layer in nChildren child processes
// (this test binary re-executed with -test.run ^testName$) and merges what they observed.
func spawnChildren(t *testing.T, testName, layer string, n, nChildren int) {
	spawnChildrenAs(t, testName, layer, n, nChildren, "ha.HASyncer (active+standby over loopback)")
}

// spawnChildrenAs: comp is the component a process-fatal error of a child is attributed to.
func spawnChildrenAs(t *testing.T, testName, layer string, n, nChildren int, comp string) {
	tmp, err := os.MkdirTemp("", "c13"+layer)
	if err != nil {
		t.Fatal(err)
	}
	defer os.RemoveAll(tmp)
	raceLog := filepath.Join(tmp, "race")
	for _, f := range strings.Fields(os.Getenv("GORACE")) {
		if strings.HasPrefix(f, "log_path=") {
			raceLog = strings.TrimPrefix(f, "log_path=") // children log next to the parent: vk.JudgeRaces reads <log_path>.*
		}
	}
	var wg sync.WaitGroup
	for k := 0; k < nChildren; k++ {
		k := k
		lo, hi := n*k/nChildren, n*(k+1)/nChildren
		wg.Add(1)
		go func() {
			defer wg.Done()
			out := filepath.Join(tmp, fmt.Sprintf("child%d.json", k))
			cmd := exec.Command(os.Args[0], "-test.run", "^"+testName+"$", "-test.count=1", "-test.timeout=0")
			cmd.Env = append(os.Environ(), "VERIF_C13_CHILD="+out, fmt.Sprintf("VERIF_C13_RANGE=%d:%d", lo, hi),
				fmt.Sprintf("GORACE=halt_on_error=0 log_path=%s.child%s%d", raceLog, layer, k))
			txt, _ := cmd.CombinedOutput()
			if os.Getenv("VERIF_C13_DEBUG") != "" {
				fmt.Println(string(txt))
			}
			if err := mergeChild(out); err == nil {
				run.Count(layer+"_child_processes_completed", 1)
				return
			}
			// the child died: attribute a process-fatal error to the workload
			lines := strings.Split(string(txt), "\n")
			for i, l := range lines {
				if strings.HasPrefix(l, "fatal error: ") || strings.HasPrefix(l, "panic: ") {
					cls := digits.ReplaceAllString(strings.TrimSpace(l), "N")
					if len(cls) > 100 {
						cls = cls[:100]
					}
					end := i + 80
					if end > len(lines) {
						end = len(lines)
					}
					violation(0, comp, "no-process-fatal-error", cls,
						fmt.Sprintf("the end-to-end push/reconnect workload (layer %s scenarios %d..%d) killed the process: %s", layer, lo, hi-1, strings.TrimSpace(l)), lines[i:end])
					return
				}
			}
			tail := lines
			if len(tail) > 15 {
				tail = tail[len(tail)-15:]
			}
			run.Inconclusive(fmt.Sprintf("layer%s-child-%d", layer, k), "child process ended without results and without a recognisable fatal error: "+strings.Join(tail, " | "))
		}()
	}
	wg.Wait()
}

// layerBChild runs the scenarios of VERIF_C13_RANGE in this (child) process.
func layerBChild(t *testing.T) {
	id := wdEnter("layer B child")
	defer wdLeave(id)
	var lo, hi int
	if _, err := fmt.Sscanf(os.Getenv("VERIF_C13_RANGE"), "%d:%d", &lo, &hi); err != nil {
		t.Fatal("VERIF_C13_RANGE: ", err)
	}
	workers := 3 // scenarios mostly wait for I/O; four children run side by side
	var wg sync.WaitGroup
	next := int64(lo - 1)
	var sampled atomic.Int64
	for w := 0; w < workers; w++ {
		wg.Add(1)
		go func() {
			defer wg.Done()
			for {
				i := int(atomic.AddInt64(&next, 1))
				if i >= hi {
					return
				}
				sc := newScenario(i)
				err := sc.run()
				sc.stop()
				if err != nil {
					col.Inconclusive(fmt.Sprintf("layerB-%d", i), err.Error())
					col.Count("B_scenarios_inconclusive", 1)
					continue
				}
				col.Eval()
				col.Count("B_scenarios", 1)
				for k, v := range sc.counts {
					col.Count(k, v)
				}
				col.Count("B_push_queue_full_retries", int(atomic.LoadInt64(&sc.queueFul)))
				for _, p := range sc.pushes {
					col.Count("B_push_"+p.Type+"_"+p.Phase, 1)
				}
				col.Count("B_heartbeats_relayed", countHeartbeats(sc.px.wireCopy()))
				col.Count("B_drop_warnings_logged_by_active", sc.drops())
				col.Count("B_connection_cycles", len(sc.cycles))
				sig := strings.Join(sc.sig, "")
				col.Distinct("B_scenario_signatures", sig)
				col.Distinct("B_standby_end_tables", sc.sbStore.table().String())
				if sc.nObl > 0 {
					col.Nontrivial(fmt.Sprintf("B|p%d|%s", sc.pushers, sig))
				}
				if len(sc.cycles) >= 2 && sampled.Add(1) <= 1 {
					col.Sample(sc.describe())
				}
			}
		}()
	}
	wg.Wait()
}

func countHeartbeats(w []wireMsg) int {
	n := 0
	for _, m := range w {
		if m.Type == "heartbeat" {
			n++
		}
	}
	return n
}

func newScenario(i int) *scenario {
	rng := run.SubRand("B", i)
	sc := &scenario{idx: i, rng: rng, sentRng: run.SubRand("B-sentinel", i), model: table{}, byOp: map[uint64]*pushRec{}, lastOn: map[string]*pushRec{}, counts: map[string]int{}}
	sc.phase.Store("pre")
	sc.pushers = 1
	if rng.IntN(4) == 0 {
		sc.pushers = 2 + rng.IntN(2)
	}
	nIDs := 2 + rng.IntN(3)
	if nIDs < sc.pushers {
		nIDs = sc.pushers
	}
	sc.ids = make([][]string, sc.pushers)
	for k := 0; k < nIDs; k++ {
		sc.ids[k%sc.pushers] = append(sc.ids[k%sc.pushers], fmt.Sprintf("s%d", k))
	}
	sc.smallBuf = rng.IntN(2) == 0
	return sc
}
