package c13

import (
	"bufio"
	"bytes"
	"context"
	"encoding/binary"
	"errors"
	"fmt"
	"io"
	"math/rand/v2"
	"net"
	"net/http"
	"net/http/httptrace"
	"os"
	"sort"
	"strings"
	"sync"
	"sync/atomic"
	"syscall"
	"testing"
	"time"
	"unsafe"

	"github.com/codelaboratoryltd/bng/pkg/ha"
	"go.uber.org/zap"
	"go.uber.org/zap/zapcore"
	"go.uber.org/zap/zaptest/observer"
)

// ---------------------------------------------------------------- layer C: connection lifecycle on the real active + standby pair(s)
//
// Layer B cuts a stream and lets the standby come back; the active never has two streams of one
// peer at once. Layer C is about the streams themselves: a real active, one or two real standbys
// (Start() on all), each behind its own relay that dials the active from a chosen loopback
// address (so the active sees "the same host" or "different hosts"), plus a harness-owned witness
// stream from a third address. The relay can end the standby's side of a stream while the
// active's side stays up ("half-open": the active has not noticed yet), either still being read
// or not read at all, and closes that old connection later on the driver's command; it can also
// hold the standby's next stream request until the old handler on the active is gone. That gives
// both orders of {old handler exits, new stream registered}, two standbys behind one address,
// reconnect storms, and half-open peers. After every lifecycle step changes are pushed on the
// active and the clauses (ii) and (iii) of the property are judged on every standby.

var errStopped = errors.New("stopped")

const (
	compSession     = "ha.HASyncer.handleSessionStream"
	logConnected    = "SSE client connected"
	logDisconnected = "SSE client disconnected"
	ctlSrcIP        = "127.0.0.9"
)

// ---------------------------------------------------------------- relay

type lcCut struct {
	mode   string // clean | abort (what the standby sees)
	linger string // "" (the active's side is closed too) | drain | halfopen
}

type lcStream struct {
	n       int    // ordinal of the stream request at this relay
	peer    string // local address of the upstream connection = the RemoteAddr the active sees
	attach  int64  // stamp: the active answered the stream request (its client channel is registered)
	cancel  context.CancelFunc
	body    io.ReadCloser
	cut     chan lcCut
	evts    chan []byte
	detach  chan struct{}
	dropped chan struct{}
	once    sync.Once
	linger  string // written before close(detach)
	conn    net.Conn

	relayed atomic.Int64 // events handed to the standby
	ended   atomic.Bool  // the standby's side of the relay is over
	byPeer  atomic.Bool  // ... because the active's side ended on its own
	upGone  atomic.Bool  // the reader saw the active's side end
	isDrop  atomic.Bool  // the relay closed the active's side
	exitObs atomic.Bool  // the exit of the active's handler for this stream has been accounted for
	noted   atomic.Bool  // the registration of this stream has been accounted for
}

func (st *lcStream) drop() {
	st.once.Do(func() {
		st.isDrop.Store(true)
		close(st.dropped)
		st.cancel()
		st.body.Close()
	})
}

// rxBytes asks the kernel how many bytes have arrived on the upstream connection of this stream so
// far (tcp_info.tcpi_bytes_received), whether or not the relay has read them yet.
func (st *lcStream) rxBytes() (uint64, bool) { return tcpBytesReceived(st.conn) }

func tcpBytesReceived(c net.Conn) (uint64, bool) {
	sc, ok := c.(syscall.Conn)
	if !ok {
		return 0, false
	}
	rc, err := sc.SyscallConn()
	if err != nil {
		return 0, false
	}
	var buf [232]byte
	n := uint32(len(buf))
	var errno syscall.Errno
	if rc.Control(func(fd uintptr) {
		_, _, errno = syscall.Syscall6(syscall.SYS_GETSOCKOPT, fd, syscall.IPPROTO_TCP, syscall.TCP_INFO, uintptr(unsafe.Pointer(&buf[0])), uintptr(unsafe.Pointer(&n)), 0)
	}) != nil || errno != 0 || n < 136 {
		return 0, false
	}
	return binary.LittleEndian.Uint64(buf[128:136]), true // struct tcp_info: tcpi_bytes_received
}

// registered: as far as the harness knows the active's handler for this stream is still alive.
func (st *lcStream) registered() bool { return !st.isDrop.Load() && !st.upGone.Load() }

type lcWire struct {
	Stream int    `json:"stream"`
	Type   string `json:"type"`
	Op     uint64 `json:"op,omitempty"`
}

type lcProxy struct {
	clock    *int64
	upstream string
	srcIP    string
	ln       net.Listener
	srv      *http.Server
	tr       *http.Transport
	cl       *http.Client
	closed   chan struct{}
	once     sync.Once

	mu         sync.Mutex
	streamReqs int
	gets       int
	upErrs     int
	gate       chan struct{}
	cur        *lcStream
	streams    []*lcStream
	wireOps    map[uint64]int // op id -> stream ordinal it was relayed on (naming only)
}

func newLcProxy(clock *int64, upstream, srcIP string) (*lcProxy, error) {
	ln, err := net.Listen("tcp", "127.0.0.1:0")
	if err != nil {
		return nil, err
	}
	p := &lcProxy{clock: clock, upstream: upstream, srcIP: srcIP, ln: ln, closed: make(chan struct{}), wireOps: map[uint64]int{}}
	d := &net.Dialer{Timeout: 10 * time.Second, LocalAddr: &net.TCPAddr{IP: net.ParseIP(srcIP)}}
	p.tr = &http.Transport{DisableKeepAlives: true, DialContext: d.DialContext}
	p.cl = &http.Client{Transport: p.tr}
	p.srv = &http.Server{Handler: p}
	go p.srv.Serve(ln)
	return p, nil
}

func (p *lcProxy) addr() string { return p.ln.Addr().String() }

func (p *lcProxy) close() {
	p.once.Do(func() {
		close(p.closed)
		p.mu.Lock()
		ss := append([]*lcStream(nil), p.streams...)
		g := p.gate
		p.gate = nil
		p.mu.Unlock()
		if g != nil {
			close(g)
		}
		for _, s := range ss {
			s.drop()
		}
		p.srv.Close()
		p.tr.CloseIdleConnections()
	})
}

func (p *lcProxy) reqs() int { p.mu.Lock(); defer p.mu.Unlock(); return p.streamReqs }

func (p *lcProxy) current() *lcStream { p.mu.Lock(); defer p.mu.Unlock(); return p.cur }

func (p *lcProxy) all() []*lcStream {
	p.mu.Lock()
	defer p.mu.Unlock()
	return append([]*lcStream(nil), p.streams...)
}

// armGate makes the standby's next stream request wait at the relay until releaseGate.
func (p *lcProxy) armGate() {
	p.mu.Lock()
	p.gate = make(chan struct{})
	p.mu.Unlock()
}

func (p *lcProxy) releaseGate() {
	p.mu.Lock()
	if p.gate != nil {
		close(p.gate)
		p.gate = nil
	}
	p.mu.Unlock()
}

func (p *lcProxy) ServeHTTP(w http.ResponseWriter, r *http.Request) {
	switch r.URL.Path {
	case "/ha/sessions":
		p.serveGet(w, r)
	case "/ha/sessions/stream":
		p.serveStream(w, r)
	default:
		http.NotFound(w, r)
	}
}

func (p *lcProxy) serveGet(w http.ResponseWriter, r *http.Request) {
	req, _ := http.NewRequestWithContext(r.Context(), "GET", "http://"+p.upstream+"/ha/sessions", nil)
	resp, err := p.cl.Do(req)
	if err != nil {
		p.mu.Lock()
		p.upErrs++
		p.mu.Unlock()
		http.Error(w, err.Error(), http.StatusBadGateway)
		return
	}
	body, err := io.ReadAll(resp.Body)
	resp.Body.Close()
	if err != nil || resp.StatusCode != 200 {
		p.mu.Lock()
		p.upErrs++
		p.mu.Unlock()
		http.Error(w, "upstream", http.StatusBadGateway)
		return
	}
	w.Header().Set("Content-Type", resp.Header.Get("Content-Type"))
	w.Write(body)
	p.mu.Lock()
	p.gets++
	p.mu.Unlock()
}

func (p *lcProxy) serveStream(w http.ResponseWriter, r *http.Request) {
	p.mu.Lock()
	p.streamReqs++
	n := p.streamReqs
	g := p.gate
	p.mu.Unlock()
	if g != nil {
		select {
		case <-g:
		case <-p.closed:
			panic(http.ErrAbortHandler)
		case <-r.Context().Done():
			panic(http.ErrAbortHandler)
		}
	}
	fl, _ := w.(http.Flusher)
	// the upstream request must be able to outlive the standby's side of the stream
	ctx, cancel := context.WithCancel(context.Background())
	st := &lcStream{n: n, cancel: cancel, cut: make(chan lcCut, 1), evts: make(chan []byte), detach: make(chan struct{}), dropped: make(chan struct{})}
	ctx = httptrace.WithClientTrace(ctx, &httptrace.ClientTrace{GotConn: func(i httptrace.GotConnInfo) { st.peer, st.conn = i.Conn.LocalAddr().String(), i.Conn }})
	req, _ := http.NewRequestWithContext(ctx, "GET", "http://"+p.upstream+"/ha/sessions/stream", nil)
	resp, err := p.cl.Do(req)
	if err != nil {
		cancel()
		p.mu.Lock()
		p.upErrs++
		p.mu.Unlock()
		http.Error(w, err.Error(), http.StatusBadGateway)
		return
	}
	if resp.StatusCode != 200 {
		resp.Body.Close()
		cancel()
		p.mu.Lock()
		p.upErrs++
		p.mu.Unlock()
		http.Error(w, "upstream", http.StatusBadGateway)
		return
	}
	st.body = resp.Body
	st.attach = atomic.AddInt64(p.clock, 1)
	for k, v := range resp.Header {
		if k == "Content-Type" || k == "Cache-Control" {
			w.Header()[k] = v
		}
	}
	w.WriteHeader(200)
	p.mu.Lock()
	p.cur = st
	p.streams = append(p.streams, st)
	p.mu.Unlock()
	fl.Flush()

	go func() {
		defer close(st.evts)
		defer st.upGone.Store(true)
		br := bufio.NewReader(resp.Body)
		var evt []byte
		detached := false
		for {
			if detached && st.linger == "halfopen" {
				<-st.dropped // the peer neither reads nor closes
				return
			}
			line, err := br.ReadBytes('\n')
			evt = append(evt, line...)
			if err != nil {
				return
			}
			if len(line) != 1 {
				continue
			}
			if detached { // the peer still reads, nobody is there to use it
				evt = nil
				continue
			}
			select {
			case st.evts <- evt:
			case <-st.detach:
				detached = true
			case <-st.dropped:
				return
			}
			evt = nil
		}
	}()

	end := func() {
		st.ended.Store(true)
		p.mu.Lock()
		if p.cur == st {
			p.cur = nil
		}
		p.mu.Unlock()
	}
	for {
		select {
		case evt, ok := <-st.evts:
			if !ok { // the active ended the stream (or went away)
				st.byPeer.Store(true)
				end()
				return
			}
			if _, err := w.Write(evt); err != nil {
				st.drop()
				end()
				return
			}
			fl.Flush()
			p.logWire(st, evt)
			st.relayed.Add(1)
		case c := <-st.cut:
			if c.linger == "" {
				st.drop()
			} else {
				st.linger = c.linger
				close(st.detach)
			}
			end()
			if c.mode == "abort" {
				panic(http.ErrAbortHandler)
			}
			return
		case <-r.Context().Done(): // the standby went away
			st.drop()
			end()
			return
		case <-p.closed:
			st.drop()
			end()
			return
		}
	}
}

func (p *lcProxy) logWire(st *lcStream, evt []byte) {
	for _, line := range bytes.Split(evt, []byte("\n")) {
		if !bytes.HasPrefix(line, []byte("data: ")) {
			continue
		}
		m, err := ha.DecodeSyncMessage(line[6:])
		if err != nil || len(m.Sessions) == 0 {
			continue
		}
		p.mu.Lock()
		p.wireOps[m.Sessions[0].BytesIn] = st.n
		p.mu.Unlock()
	}
}

func (p *lcProxy) relayedOp(op uint64) bool {
	p.mu.Lock()
	defer p.mu.Unlock()
	_, ok := p.wireOps[op]
	return ok
}

// ---------------------------------------------------------------- witness stream
//
// A harness-owned SSE client attached to the active from its own loopback address, registered
// before any standby. It tells the driver how far the active's broadcaster has got: which changes
// it has broadcast and how many heartbeats since. It is the logical clock of the "this connected
// stream is silent" verdict.

type lcControl struct {
	mu       sync.Mutex
	cond     *sync.Cond
	hb       int
	opAt     map[uint64]int // op id -> heartbeats received before it
	dead     bool
	cancel   context.CancelFunc
	body     io.ReadCloser
	peer     string
	conn     net.Conn
	timedOut int
}

func startControl(addr string) (*lcControl, error) {
	c := &lcControl{opAt: map[uint64]int{}}
	c.cond = sync.NewCond(&c.mu)
	d := &net.Dialer{Timeout: 10 * time.Second, LocalAddr: &net.TCPAddr{IP: net.ParseIP(ctlSrcIP)}}
	tr := &http.Transport{DisableKeepAlives: true, DialContext: d.DialContext}
	ctx, cancel := context.WithCancel(context.Background())
	ctx = httptrace.WithClientTrace(ctx, &httptrace.ClientTrace{GotConn: func(i httptrace.GotConnInfo) { c.peer, c.conn = i.Conn.LocalAddr().String(), i.Conn }})
	req, _ := http.NewRequestWithContext(ctx, "GET", "http://"+addr+"/ha/sessions/stream", nil)
	resp, err := (&http.Client{Transport: tr}).Do(req)
	if err != nil {
		cancel()
		return nil, err
	}
	if resp.StatusCode != 200 {
		resp.Body.Close()
		cancel()
		return nil, fmt.Errorf("witness stream: status %d", resp.StatusCode)
	}
	c.cancel, c.body = cancel, resp.Body
	go func() {
		br := bufio.NewReader(resp.Body)
		for {
			line, err := br.ReadBytes('\n')
			if err != nil {
				c.mu.Lock()
				c.dead = true
				c.cond.Broadcast()
				c.mu.Unlock()
				return
			}
			if !bytes.HasPrefix(line, []byte("data: ")) {
				continue
			}
			m, err := ha.DecodeSyncMessage(bytes.TrimSpace(line[6:]))
			if err != nil {
				continue
			}
			c.mu.Lock()
			if m.Type == ha.SyncTypeHeartbeat {
				c.hb++
			} else if len(m.Sessions) > 0 {
				c.opAt[m.Sessions[0].BytesIn] = c.hb
			}
			c.cond.Broadcast()
			c.mu.Unlock()
		}
	}()
	return c, nil
}

func (c *lcControl) isDead() bool { c.mu.Lock(); defer c.mu.Unlock(); return c.dead }

func (c *lcControl) close() {
	c.cancel()
	c.body.Close()
}

// waitBeats waits until the witness stream has received k more heartbeats.
func (c *lcControl) waitBeats(k int, watchdog time.Duration) bool {
	expired := false
	t := time.AfterFunc(watchdog, func() { c.mu.Lock(); expired = true; c.cond.Broadcast(); c.mu.Unlock() })
	defer t.Stop()
	c.mu.Lock()
	defer c.mu.Unlock()
	target := c.hb + k
	for c.hb < target {
		if c.dead || expired {
			c.timedOut++
			return false
		}
		c.cond.Wait()
	}
	return true
}

// waitQuiet waits until the witness stream has received change op and k heartbeats after it.
// The watchdog only ends the wait (-> no verdict).
func (c *lcControl) waitQuiet(op uint64, k int, watchdog time.Duration) bool {
	expired := false
	t := time.AfterFunc(watchdog, func() { c.mu.Lock(); expired = true; c.cond.Broadcast(); c.mu.Unlock() })
	defer t.Stop()
	c.mu.Lock()
	defer c.mu.Unlock()
	for {
		if at, ok := c.opAt[op]; ok && c.hb >= at+k {
			return true
		}
		if c.dead || expired {
			c.timedOut++
			return false
		}
		c.cond.Wait()
	}
}

// ---------------------------------------------------------------- scenario

type lcStep struct {
	Kind string `json:"kind"` // cycle | drop | dropall | storm | burst
	SB   int    `json:"standby"`
	Cut  string `json:"cut,omitempty"`      // clean | abort
	Up   string `json:"upstream,omitempty"` // close | drain | halfopen
	Gate bool   `json:"new_stream_held_until_old_handler_exit,omitempty"`
	N    int    `json:"n,omitempty"`
}

func (s lcStep) String() string {
	switch s.Kind {
	case "cycle":
		g := ""
		if s.Gate {
			g = ",held"
		}
		return fmt.Sprintf("cycle(sb%d,%s,%s%s)", s.SB, s.Cut, s.Up, g)
	case "storm":
		return fmt.Sprintf("storm(sb%d,%d)", s.SB, s.N)
	case "drop":
		return fmt.Sprintf("drop(sb%d)", s.SB)
	case "burst":
		return fmt.Sprintf("burst(%d)", s.N)
	}
	return s.Kind
}

type lcEvent struct {
	Stamp  int64  `json:"stamp"`
	What   string `json:"what"`
	SB     int    `json:"standby"`
	Stream int    `json:"stream,omitempty"`
	Peer   string `json:"peer_address_seen_by_active,omitempty"`
}

type lcEpoch struct {
	N            int
	st           *lcStream
	ConnObserved int64
	End          int64
	EndWhy       string

	overlapAtStart  int   // same-host streams still registered on the active when this one was observed connected
	newerRegistered int   // same-host streams registered later while this one was connected
	oldExits        int   // exits of older same-host handlers observed while this one was connected
	firstOldExit    int64 // stamp of the first of those
	judged          map[uint64]bool
	lost            map[uint64]bool
	lastStamp       int64
	lastPush        *pushRec
	logPos          int
	delivered       int
	silent          bool
	overtook        bool // by the order of the active's own log lines the exit of an older handler came after this registration
}

func (e *lcEpoch) overlapped() bool {
	return e.overlapAtStart > 0 || e.newerRegistered > 0 || e.oldExits > 0 || e.overtook
}

type lcStandby struct {
	idx     int
	sb      *ha.HASyncer
	store   *recStore
	px      *lcProxy
	ep      *lcEpoch
	epochs  []*lcEpoch
	needReq int
}

type lcScenario struct {
	idx      int
	rng      *rand.Rand
	base     *scenario // push log, model of the active's table, sentinels (shared with layer B)
	logs     *observer.ObservedLogs
	ctl      *lcControl
	sbs      []*lcStandby
	hosts    []string
	sameHost bool
	quietK   int
	steps    []lcStep
	done     []string
	events   []lcEvent
	sig      []string
	nJudged  int
	nOverlap int
	lastSent *pushRec
	silentN  int
}

func (sc *lcScenario) cnt(k string, n int) { sc.base.cnt(k, n) }
func (sc *lcScenario) stamp() int64        { return sc.base.stamp() }
func (sc *lcScenario) size() int           { return 500 + int(sc.base.nPush.Load()) }
func (sc *lcScenario) fail(reason string) error {
	return fmt.Errorf("%w: %s (after steps %s)", errInconclusive, reason, strings.Join(sc.done, " "))
}

func (sc *lcScenario) event(what string, st *lcStandby, s *lcStream) {
	e := lcEvent{Stamp: sc.stamp(), What: what, SB: -1}
	if st != nil {
		e.SB = st.idx
	}
	if s != nil {
		e.Stream, e.Peer = s.n, s.peer
	}
	sc.events = append(sc.events, e)
}

func (sc *lcScenario) describe() map[string]any {
	var sbs []map[string]any
	for _, st := range sc.sbs {
		var eps []map[string]any
		for _, e := range st.epochs {
			eps = append(eps, map[string]any{"epoch": e.N, "stream": e.st.n, "peer_address_seen_by_active": e.st.peer, "connected_observed": e.ConnObserved, "end": e.End, "ended_by": e.EndWhy,
				"same_host_streams_registered_at_start": e.overlapAtStart, "same_host_streams_registered_later": e.newerRegistered, "older_same_host_handler_exits_observed": e.oldExits, "registration_overtook_exit_of_older_handler": e.overtook,
				"changes_judged_delivered": e.delivered, "changes_lost": len(e.lost), "found_silent": e.silent})
		}
		sbs = append(sbs, map[string]any{"standby": st.idx, "dials_active_from": sc.hosts[st.idx], "connected_intervals": eps})
	}
	ev := sc.events
	if len(ev) > 60 {
		ev = ev[len(ev)-60:]
	}
	return map[string]any{"layer": "C", "scenario": sc.idx, "seed": run.Seed, "heartbeat_interval": sc.base.hb.String(), "standbys": sbs, "witness_stream_from": ctlSrcIP,
		"steps_done": sc.done, "lifecycle_events": ev,
		"legend": "cycle(sbN,clean|abort,close|drain|halfopen[,held]): the relay ends standby N's side of its stream (EOF / reset); the active's side is closed at once | stays up and is still read | stays up and is not read any more; held = the standby's next stream request waits at the relay until the old handler on the active has exited. drop(sbN): the oldest lingering connection of standby N is finally closed. storm(sbN,k): k such cuts in a row, each as soon as the new stream is attached, with changes pushed in between. After every step 1-5 changes are pushed and a sentinel settles every standby."}
}

func newLcScenario(i int) *lcScenario {
	rng := run.SubRand("C", i)
	b := &scenario{idx: i, rng: rng, sentRng: run.SubRand("C-sentinel", i), model: table{}, byOp: map[uint64]*pushRec{}, lastOn: map[string]*pushRec{}, counts: map[string]int{}, pushers: 1}
	b.phase.Store("pre")
	nIDs := 2 + rng.IntN(3)
	b.ids = [][]string{nil}
	for k := 0; k < nIDs; k++ {
		b.ids[0] = append(b.ids[0], fmt.Sprintf("s%d", k))
	}
	sc := &lcScenario{idx: i, rng: rng, base: b}
	sc.plan()
	return sc
}

func pick[T any](rng *rand.Rand, xs ...T) T { return xs[rng.IntN(len(xs))] }

// plan fixes the number of standbys, their addresses and the lifecycle steps. The opening episode
// is taken from a fixed catalogue (scenario index mod 8), so that every run contains every kind;
// the tail is random.
func (sc *lcScenario) plan() {
	rng := sc.rng
	cut := func() string { return pick(rng, "clean", "abort") }
	lg := func() string { return pick(rng, "drain", "halfopen") }
	n := 1
	sc.sameHost = true
	var open []lcStep
	switch sc.idx % 8 {
	case 0: // the old stream outlives the registration of the new one, then goes
		open = []lcStep{{Kind: "cycle", Cut: cut(), Up: "drain"}, {Kind: "drop"}}
	case 1: // the same with a peer that has stopped reading, and a burst while both are registered
		open = []lcStep{{Kind: "cycle", Cut: cut(), Up: "halfopen"}, {Kind: "burst", N: 20 + rng.IntN(60)}, {Kind: "drop"}}
	case 2: // the old handler is gone before the new stream is registered
		open = []lcStep{{Kind: "cycle", Cut: cut(), Up: "close", Gate: true}, {Kind: "cycle", Cut: cut(), Up: "close", Gate: true}}
	case 3: // whatever order the reconnect and the old handler's exit happen to take
		open = []lcStep{{Kind: "cycle", Cut: cut(), Up: "close"}, {Kind: "cycle", Cut: cut(), Up: "close"}, {Kind: "cycle", Cut: cut(), Up: "close"}}
	case 4: // two standbys behind one address
		n = 2
		open = []lcStep{{Kind: "cycle", SB: 0, Cut: cut(), Up: "close"}, {Kind: "cycle", SB: 1, Cut: cut(), Up: lg()}, {Kind: "drop", SB: 1}}
	case 5:
		n = 2
		open = []lcStep{{Kind: "cycle", SB: 1, Cut: cut(), Up: lg()}, {Kind: "cycle", SB: 0, Cut: cut(), Up: "close", Gate: true}, {Kind: "drop", SB: 1}}
	case 6: // reconnect storm
		open = []lcStep{{Kind: "storm", N: 3 + rng.IntN(4)}, {Kind: "dropall"}}
	case 7: // two standbys on different addresses
		n = 2
		sc.sameHost = false
		open = []lcStep{{Kind: "cycle", SB: 0, Cut: cut(), Up: lg()}, {Kind: "drop", SB: 0}, {Kind: "cycle", SB: 1, Cut: cut(), Up: "close"}}
	}
	sc.hosts = []string{"127.0.0.1", "127.0.0.1"}[:n]
	if !sc.sameHost {
		sc.hosts = []string{"127.0.0.1", "127.0.0.2"}
	}
	sc.steps = open
	for k, extra := 0, run.Pick(2, 4)+rng.IntN(3); k < extra; k++ {
		s := lcStep{SB: rng.IntN(n)}
		switch x := rng.IntN(100); {
		case x < 45:
			s.Kind, s.Cut, s.Up = "cycle", cut(), pick(rng, "close", "close", "drain", "halfopen")
			s.Gate = s.Up == "close" && rng.IntN(3) == 0
		case x < 65:
			s.Kind = "drop"
		case x < 80:
			s.Kind, s.N = "storm", 2+rng.IntN(4)
		case x < 90:
			s.Kind, s.N = "burst", 10+rng.IntN(110)
		default:
			s.Kind = "dropall"
		}
		sc.steps = append(sc.steps, s)
	}
	sc.steps = append(sc.steps, lcStep{Kind: "dropall"})
}

func (sc *lcScenario) start() error {
	b := sc.base
	core, logs := observer.New(zapcore.InfoLevel)
	sc.logs, b.logs = logs, logs
	logger := zap.New(core)
	b.actStore = newRecStore(&b.clock)
	b.hb = pick(sc.rng, 5*time.Millisecond, 10*time.Millisecond, 20*time.Millisecond, 100*time.Millisecond)
	sc.quietK = int(2500 * time.Millisecond / b.hb)
	if sc.quietK < 25 {
		sc.quietK = 25
	}
	for i, n := 0, sc.rng.IntN(4); i < n; i++ {
		sid := b.ids[0][i%len(b.ids[0])]
		if _, ok := b.model[sid]; ok {
			continue
		}
		b.nextOp++
		s := newSession(sid, b.nextOp, sc.rng)
		b.actStore.inner.PutSession(&s)
		b.model[sid] = s
	}
	var addr string
	for try := 0; ; try++ {
		a, err := freePort()
		if err != nil {
			return sc.fail(err.Error())
		}
		node := fmt.Sprintf("actC-%d-%d", sc.idx, try)
		b.act = ha.NewHASyncer(ha.SyncConfig{NodeID: node, Role: ha.RoleActive, ListenAddr: a, HeartbeatInterval: b.hb, RequestTimeout: 10 * time.Minute}, b.actStore, logger)
		if err := b.act.Start(); err != nil {
			return sc.fail(err.Error())
		}
		if waitHealthy(a, node) {
			addr = a
			break
		}
		b.act.Stop()
		if try == 5 {
			return sc.fail("active did not come up on a free loopback port")
		}
	}
	ctl, err := startControl(addr)
	if err != nil {
		return sc.fail("witness stream: " + err.Error())
	}
	sc.ctl = ctl
	if ctl.waitBeats(1, 30*time.Second) { // the initial heartbeat of the stream handler
		if n, ok := tcpBytesReceived(ctl.conn); ok && n > 0 {
			sc.cnt("C_tcp_info_self_check_ok", 1)
		} else {
			sc.cnt("C_tcp_info_self_check_failed", 1)
		}
	}
	for i, host := range sc.hosts {
		px, err := newLcProxy(&b.clock, addr, host)
		if err != nil {
			return sc.fail(err.Error())
		}
		st := &lcStandby{idx: i, px: px, store: newRecStore(&b.clock), needReq: 1}
		st.sb = ha.NewHASyncer(ha.SyncConfig{NodeID: fmt.Sprintf("sbyC-%d-%d", sc.idx, i), Role: ha.RoleStandby, Partner: &ha.PartnerInfo{NodeID: "active", Endpoint: px.addr()},
			RequestTimeout: 10 * time.Minute, FullSyncInterval: time.Hour, ReconnectInterval: time.Millisecond}, st.store, logger)
		st.sb.VerifC13SetBackoff(time.Duration(1+sc.rng.IntN(5))*time.Millisecond, 20*time.Millisecond)
		sc.sbs = append(sc.sbs, st)
	}
	for _, st := range sc.sbs {
		if err := st.sb.Start(); err != nil {
			return sc.fail(err.Error())
		}
		if sc.rng.IntN(2) == 0 { // otherwise both standbys come up side by side
			if err := sc.connected(st); err != nil {
				return err
			}
		}
	}
	for _, st := range sc.sbs {
		if st.ep == nil {
			if err := sc.connected(st); err != nil {
				return err
			}
		}
	}
	return nil
}

func (sc *lcScenario) stop() {
	for _, st := range sc.sbs {
		if st.sb != nil {
			st.sb.Stop()
		}
	}
	for _, st := range sc.sbs {
		st.px.close()
	}
	if sc.ctl != nil {
		sc.ctl.close()
	}
	if sc.base.act != nil {
		sc.base.act.Stop()
	}
}

// ---------------------------------------------------------------- what the harness knows about the active's handlers

// logTail renders the last n lines the syncers logged at Info and above (witness material only).
func (sc *lcScenario) logTail(n int) []string {
	all := sc.logs.All()
	if len(all) > n {
		all = all[len(all)-n:]
	}
	var out []string
	for _, e := range all {
		l := e.Level.String() + " " + e.Message
		for k, v := range e.ContextMap() {
			l += fmt.Sprintf(" %s=%v", k, v)
		}
		out = append(out, l)
	}
	return out
}

func (sc *lcScenario) disconnects() int { return sc.logs.FilterMessage(logDisconnected).Len() }

// expectedExits: handlers of the active that must exit because their connection was closed by the
// relay or because the active ended the stream itself.
func (sc *lcScenario) expectedExits() int {
	n := 0
	for _, st := range sc.sbs {
		for _, s := range st.px.all() {
			if !s.registered() {
				n++
			}
		}
	}
	return n
}

// waitExits waits until the active has logged the exit of every handler whose connection is gone.
// Sequencing and evidence only: if it is not observed the scenario goes on and says so.
func (sc *lcScenario) waitExits() bool {
	deadline := time.Now().Add(20 * time.Second)
	for sc.disconnects() < sc.expectedExits() {
		if time.Now().After(deadline) {
			sc.cnt("C_handler_exit_not_observed", 1)
			return false
		}
		time.Sleep(200 * time.Microsecond)
	}
	return true
}

// sameHostStreams returns the streams of the given address, other than except, whose handler on
// the active is (as far as the harness knows) still alive.
func (sc *lcScenario) sameHostStreams(host string, except *lcStream) []*lcStream {
	var out []*lcStream
	for _, st := range sc.sbs {
		if sc.hosts[st.idx] != host {
			continue
		}
		for _, s := range st.px.all() {
			if s != except && s.registered() {
				out = append(out, s)
			}
		}
	}
	return out
}

// noteRegistered: the active has answered a new stream request of st.
func (sc *lcScenario) noteRegistered(st *lcStandby, s *lcStream) {
	if s.noted.Swap(true) {
		return
	}
	sc.event("stream-registered", st, s)
	for _, o := range sc.sbs {
		if o.ep != nil && o.ep.st != s && sc.hosts[o.idx] == sc.hosts[st.idx] && o.ep.st.attach < s.attach {
			o.ep.newerRegistered++
		}
	}
}

// noteExit: the exit of the active's handler for s has been observed.
func (sc *lcScenario) noteExit(owner *lcStandby, s *lcStream, afterNewer bool) {
	if s.exitObs.Swap(true) {
		return
	}
	if !afterNewer {
		sc.event("old-handler-exit-observed-before-new-registration", owner, s)
		return
	}
	sc.event("old-handler-exit-observed", owner, s)
	hit := false
	for _, o := range sc.sbs {
		if o.ep != nil && o.ep.st != s && sc.hosts[o.idx] == sc.hosts[owner.idx] && o.ep.st.attach > s.attach {
			o.ep.oldExits++
			if o.ep.firstOldExit == 0 {
				o.ep.firstOldExit = sc.stamp()
			}
			hit = true
		}
	}
	if hit {
		sc.cnt("C_old_handler_exit_after_new_registration", 1)
	}
}

// connected waits until standby st is connected on a stream it asked for after its previous
// connected interval ended, and opens the interval.
func (sc *lcScenario) connected(st *lcStandby) error {
	deadline := time.Now().Add(30 * time.Second)
	var s *lcStream
	for {
		if c := st.px.current(); c != nil && c.n >= st.needReq && !c.ended.Load() && st.sb.IsConnected() && st.px.current() == c {
			s = c
			break
		}
		if time.Now().After(deadline) {
			return sc.fail(fmt.Sprintf("standby %d did not report connected on a stream request >= #%d within 30 s (requests seen: %d)", st.idx, st.needReq, st.px.reqs()))
		}
		time.Sleep(200 * time.Microsecond)
	}
	sc.noteRegistered(st, s)
	ep := &lcEpoch{N: len(st.epochs), st: s, judged: map[uint64]bool{}, lost: map[uint64]bool{}}
	ep.overlapAtStart = len(sc.sameHostStreams(sc.hosts[st.idx], s))
	if sc.exitLoggedAfterLastRegistration() {
		ep.overtook = true
		sc.cnt("C_reconnect_overtook_old_handler_exit", 1)
	}
	ep.ConnObserved = sc.stamp()
	ep.lastStamp = ep.ConnObserved
	st.ep, st.epochs = ep, append(st.epochs, ep)
	st.needReq = s.n + 1
	sc.cnt("C_connected_intervals", 1)
	if ep.overlapAtStart > 0 {
		sc.nOverlap++
		sc.cnt("C_overlapping_stream_episodes", 1)
		sc.event(fmt.Sprintf("connected-while-%d-other-stream(s)-from-%s-registered", ep.overlapAtStart, sc.hosts[st.idx]), st, s)
	} else {
		sc.event("connected", st, s)
	}
	return nil
}

func (sc *lcScenario) endEpoch(st *lcStandby, why string) {
	if st.ep != nil {
		st.ep.End, st.ep.EndWhy = sc.stamp(), why
		st.ep = nil
	}
}

// cutStream ends the standby's side of its current stream.
func (sc *lcScenario) cutStream(st *lcStandby, mode, up string) (*lcStream, error) {
	s := st.px.current()
	if s == nil {
		return nil, nil // already gone (ended by the active): the standby is on its way back
	}
	sc.endEpoch(st, "cut-"+mode+"/"+up)
	c := lcCut{mode: mode}
	if up != "close" {
		c.linger = up
	}
	sc.event("cut-"+mode+"-upstream-"+up, st, s)
	s.cut <- c
	deadline := time.Now().Add(20 * time.Second)
	for !s.ended.Load() {
		if time.Now().After(deadline) {
			return nil, sc.fail("relay did not end the stream within 20 s")
		}
		time.Sleep(100 * time.Microsecond)
	}
	sc.cnt("C_cuts_"+mode, 1)
	sc.cnt("C_upstream_"+up, 1)
	return s, nil
}

func (sc *lcScenario) transitPushes(max int) {
	sc.base.phase.Store("transit")
	for i, n := 0, sc.rng.IntN(max+1); i < n; i++ {
		sc.base.doOp(0, sc.rng, 35)
	}
}

func (sc *lcScenario) doCycle(st *lcStandby, step lcStep) error {
	if step.Gate {
		st.px.armGate()
	}
	old, err := sc.cutStream(st, step.Cut, step.Up)
	if err != nil {
		st.px.releaseGate()
		return err
	}
	sc.transitPushes(2)
	if step.Gate {
		// order: the old handler's exit first, the new registration afterwards
		if sc.waitExits() && old != nil {
			sc.noteExit(st, old, false)
			sc.cnt("C_new_stream_registered_after_old_handler_exit", 1)
		}
		st.px.releaseGate()
	}
	if err := sc.connected(st); err != nil {
		return err
	}
	if old != nil && step.Up == "close" && !step.Gate {
		// natural order: whether the reconnect overtook the old handler's exit was read off the active's log
		if sc.waitExits() {
			sc.noteExit(st, old, st.ep.overtook)
		}
	}
	return nil
}

// exitLoggedAfterLastRegistration looks at the order of the active's own log lines (evidence only).
func (sc *lcScenario) exitLoggedAfterLastRegistration() bool {
	all := sc.logs.All()
	lastConn, disc := -1, 0
	for i, e := range all {
		if e.Message == logConnected {
			lastConn = i
		}
	}
	for i, e := range all {
		if e.Message == logDisconnected && i < lastConn {
			disc++
		}
	}
	return disc < sc.expectedExits()
}

func (sc *lcScenario) doDrop(st *lcStandby, all bool) {
	for _, s := range st.px.all() {
		if !s.ended.Load() || !s.registered() {
			continue
		}
		sc.event("lingering-connection-closed", st, s)
		s.drop()
		sc.cnt("C_lingering_connections_closed", 1)
		if sc.waitExits() {
			sc.noteExit(st, s, true)
		}
		if !all {
			return
		}
	}
}

func (sc *lcScenario) doStorm(st *lcStandby, n int) error {
	for k := 0; k < n; k++ {
		up := pick(sc.rng, "close", "close", "close", "drain", "halfopen")
		before := st.px.reqs()
		if _, err := sc.cutStream(st, pick(sc.rng, "clean", "abort"), up); err != nil {
			return err
		}
		sc.transitPushes(2)
		// as soon as the active has answered the next stream request: cut again
		deadline := time.Now().Add(30 * time.Second)
		for {
			if c := st.px.current(); c != nil && c.n > before {
				sc.noteRegistered(st, c)
				break
			}
			if time.Now().After(deadline) {
				return sc.fail(fmt.Sprintf("standby %d issued no new stream request within 30 s in a reconnect storm", st.idx))
			}
			time.Sleep(200 * time.Microsecond)
		}
		sc.cnt("C_storm_reconnects", 1)
	}
	return sc.connected(st)
}

// ---------------------------------------------------------------- settle + oracles

type lcSettle struct {
	res  string // applied | silent | ended
	sent *pushRec
	obs  []lcObs
}

func pace(try int) time.Duration {
	d := 30 * time.Millisecond << try
	if try > 6 || d > 3*time.Second {
		d = 3 * time.Second
	}
	return d
}

// lcBase is what had come through on a standby's stream at some point: events relayed, store
// operations logged, bytes arrived on the upstream connection (kernel counter).
type lcBase struct {
	relayed int64
	log     int
	rx      uint64
	rxOK    bool
}

func (sc *lcScenario) baseline(st *lcStandby) lcBase {
	rx, ok := st.ep.st.rxBytes()
	return lcBase{st.ep.st.relayed.Load(), st.store.logLen(), rx, ok}
}

type lcObs struct {
	Silent    bool           `json:"stream_up_on_both_sides_and_nothing_arrived_since_baseline"`
	Quiescent bool           `json:"active_has_nothing_queued"`
	Pending   int            `json:"active_pending_changes"`
	Backlog   map[string]int `json:"active_client_table_backlog_by_client_id"`
	Live      int            `json:"streams_the_harness_knows_to_be_open_on_the_active"`
	RxBytes   uint64         `json:"bytes_arrived_on_this_stream_connection_in_all"`
}

// observe takes one look at a stream that seems silent: is it still up on both sides with nothing
// arrived since the baseline (not even unread bytes in the socket), and is the active quiescent
// (nothing in its pending queue, nothing queued in any client channel)?
func (sc *lcScenario) observe(st *lcStandby, s *lcStream, b lcBase) lcObs {
	o := lcObs{Backlog: sc.base.act.VerifC13SSEClientBacklog(), Pending: len(sc.base.act.VerifC13Pending()), Live: 1}
	for _, x := range sc.sbs {
		for _, y := range x.px.all() {
			if y.registered() {
				o.Live++
			}
		}
	}
	queued := o.Pending
	for _, n := range o.Backlog {
		queued += n
	}
	o.Quiescent = queued == 0
	rx, ok := s.rxBytes()
	o.RxBytes = rx
	o.Silent = ok && b.rxOK && rx == b.rx && s.relayed.Load() == b.relayed && st.store.logLen() == b.log &&
		!s.ended.Load() && !s.upGone.Load() && st.px.current() == s && st.sb.IsConnected()
	return o
}

// settleOne waits until a sentinel pushed after every other change has been applied by standby st
// through its present stream. The timers only pace the re-pushes. A stream that stays silent is
// judged on logical progress and on state, not on time: after at least two sentinels met an idle
// standby a further one is pushed; the witness stream has received it and quietK heartbeats after
// it (the active's broadcaster has long passed it); the active has nothing queued anywhere
// (pending queue and every client channel empty: no handler is lagging); the stream is up on both
// sides (IsConnected(), neither end closed); and since before that sentinel was pushed not one
// byte has arrived on the stream's connection (kernel counter, so a slow relay is ruled out), no
// event was relayed and the standby applied nothing. The same must hold again quietK heartbeats
// later. Anything short of that is no verdict.
func (sc *lcScenario) settleOne(st *lcStandby, b lcBase) (lcSettle, error) {
	ep := st.ep
	s := ep.st
	start := time.Now()
	// the latest sentinel (another standby's settling may have pushed more): the table is compared
	// with the active's only when nothing pushed is still on its way
	sent := sc.lastSent
	for try := 0; try < 20; try++ {
		if try > 0 {
			b = sc.baseline(st) // what had come through before this sentinel was pushed
			sent = sc.base.sentinel()
			sc.lastSent = sent
			sc.cnt("C_sentinel_repushed", 1)
		}
		for {
			before := st.store.logLen()
			if _, ok := st.store.waitPut(sent.Op, pace(try)); ok {
				if s.ended.Load() || s.upGone.Load() {
					return lcSettle{res: "ended"}, nil // it came with a new full sync, not through this stream
				}
				return lcSettle{res: "applied", sent: sent}, nil
			}
			if s.ended.Load() || s.upGone.Load() {
				return lcSettle{res: "ended"}, nil
			}
			if st.store.logLen() == before {
				break
			}
			sc.cnt("C_settle_waits_behind_backlog", 1)
			if time.Since(start) > 240*time.Second {
				return lcSettle{}, sc.fail("standby still busy with the backlog of one burst after 240 s")
			}
		}
		if try >= 2 && sc.observe(st, s, b).Silent && sc.ctl.waitQuiet(sent.Op, sc.quietK, 120*time.Second) {
			o1 := sc.observe(st, s, b)
			var o2 lcObs
			if o1.Silent && o1.Quiescent && sc.ctl.waitBeats(sc.quietK, 120*time.Second) {
				if o2 = sc.observe(st, s, b); o2.Silent && o2.Quiescent {
					return lcSettle{res: "silent", sent: sent, obs: []lcObs{o1, o2}}, nil
				}
			}
			sc.cnt("C_silence_suspected_not_confirmed", 1)
			if os.Getenv("VERIF_C13_DEBUG") != "" {
				fmt.Fprintf(os.Stderr, "DEBUG scenario %d sb %d stream %d try %d hb %v: suspected silence not confirmed: base=%+v o1=%+v o2=%+v ended=%v upGone=%v cur=%v conn=%v ctlDead=%v steps=%v\n%s\n",
					sc.idx, st.idx, s.n, try, sc.base.hb, b, o1, o2, s.ended.Load(), s.upGone.Load(), st.px.current() == s, st.sb.IsConnected(), sc.ctl.isDead(), sc.done, strings.Join(sc.logTail(12), "\n"))
			}
		}
	}
	if first := sc.lastSent; st.px.relayedOp(first.Op) && st.sb.IsConnected() && !s.ended.Load() {
		violation(sc.size(), compStream, ruleOrder, "received-not-applied:sentinel",
			fmt.Sprintf("layer C scenario %d: 20 consecutive changes pushed while standby %d's stream was connected were not applied to its store although the first was relayed to it", sc.idx, st.idx), sc.describe())
		return lcSettle{res: "ended"}, nil
	}
	return lcSettle{}, sc.fail(fmt.Sprintf("no sentinel was applied by standby %d and its stream is neither silent nor ended (%d events relayed since the last sentinel was pushed)", st.idx, s.relayed.Load()-b.relayed))
}

// settleAll pushes a sentinel and judges every standby; standbys whose stream turned out silent or
// ended are brought back and judged again on their next connected interval.
func (sc *lcScenario) settleAll() error {
	for round := 0; round < 6; round++ {
		for _, st := range sc.sbs {
			if st.ep == nil {
				if err := sc.connected(st); err != nil {
					return err
				}
			}
		}
		b0 := make([]lcBase, len(sc.sbs))
		for i, st := range sc.sbs {
			b0[i] = sc.baseline(st)
		}
		sc.base.phase.Store("conn")
		first := sc.base.sentinel()
		sc.lastSent = first
		sc.cnt("C_sentinels_pushed", 1)
		again := false
		for i, st := range sc.sbs {
			r, err := sc.settleOne(st, b0[i])
			if err != nil {
				return err
			}
			switch r.res {
			case "applied":
				sc.cnt("C_settle_points", 1)
				sc.judgeEpoch(st, r.sent)
				sc.judgeConvergence(st)
			case "silent":
				sc.reportSilent(st, r.sent, r.obs)
				if sc.silentN >= 2 {
					return errStopped // the same finding over and over: leave this scenario
				}
				// bring it back so that the rest of the scenario is still judged
				if _, err := sc.cutStream(st, "clean", "close"); err != nil {
					return err
				}
				again = true
			case "ended":
				sc.cnt("C_stream_ended_by_peer", 1)
				sc.endEpoch(st, "ended-by-active")
				again = true
			}
		}
		if !again {
			return nil
		}
	}
	return sc.fail("standbys did not all settle in 6 rounds")
}

func (sc *lcScenario) overlapClass(ep *lcEpoch) string {
	if ep.overlapped() {
		return "same-host-stream-overlap"
	}
	return "no-stream-overlap"
}

func (sc *lcScenario) reportSilent(st *lcStandby, last *pushRec, obs []lcObs) {
	ep := st.ep
	ep.silent = true
	sc.silentN++
	sc.cnt("C_silent_connected_streams", 1)
	b := sc.base
	b.mu.Lock()
	var owed []*pushRec
	for _, p := range b.pushes {
		if p.Ret != 0 && p.Call > ep.ConnObserved && !ep.judged[p.Op] {
			owed = append(owed, p)
		}
	}
	b.mu.Unlock()
	if len(owed) > 12 {
		owed = owed[:12]
	}
	cls := "stream-held-in-active-client-table"
	if len(obs[0].Backlog) < obs[0].Live {
		cls = "stream-missing-from-active-client-table"
	}
	violation(sc.size(), compSession, ruleOrder, "connected-stream-receives-nothing:"+cls,
		fmt.Sprintf("layer C scenario %d: standby %d reports IsConnected()==true on stream #%d (the active answered it, neither side closed it), yet nothing arrives on it any more: a sentinel (op %d, after earlier ones that met an idle standby) pushed on the active was broadcast (the witness stream received it and %d heartbeats after it) while not one event, not even a heartbeat, was relayed on this stream since before it was pushed, not one byte arrived on its connection, the standby applied nothing, and the active has nothing queued for anybody (its client table holds %d channel(s), all empty, while %d streams are open on it: this one's context is %s); same-host streams registered when it connected: %d, registered later: %d, older same-host handlers seen exiting meanwhile: %d, reconnect overtook the exit of the previous handler: %v",
			sc.idx, st.idx, ep.st.n, last.Op, sc.quietK, len(obs[0].Backlog), obs[0].Live, sc.overlapClass(ep), ep.overlapAtStart, ep.newerRegistered, ep.oldExits, ep.overtook),
		map[string]any{"scenario": sc.describe(), "standby": st.idx, "stream": ep.st.n, "changes_owed_to_this_stream": owed, "standby_table": st.store.table().String(), "active_table": sc.base.model.String(),
			"events_relayed_on_this_stream_in_all": ep.st.relayed.Load(), "observations": obs, "active_log_tail": sc.logTail(40), "active_messages_sent": sc.base.act.Stats().MessagesSent})
}

// judgeEpoch is clause (ii) for the present connected interval of st, up to the applied sentinel.
// The pusher is sequential, so push order is total. A Put carries the unique version id of its
// push; the store sees only the session id of a delete, so a delete counts as applied when one is
// logged between the applications of its neighbours on the same session.
func (sc *lcScenario) judgeEpoch(st *lcStandby, upto *pushRec) {
	ep := st.ep
	b := sc.base
	log := st.store.logCopy()
	puts := map[uint64][]int64{}
	dels := map[string][]int64{}
	b.mu.Lock()
	defer b.mu.Unlock()
	for i, o := range log {
		if o.Stamp <= ep.ConnObserved {
			continue
		}
		if o.Kind == "delete" {
			dels[o.SID] = append(dels[o.SID], o.Stamp)
			continue
		}
		puts[o.Op] = append(puts[o.Op], o.Stamp)
		if i >= ep.logPos {
			p := b.byOp[o.Op]
			switch {
			case p == nil || p.Type == "delete":
				violation(sc.size(), compStream, ruleOrder, "applied-change-never-pushed:put",
					fmt.Sprintf("layer C scenario %d standby %d: while connected the standby stored %s version op %d which no PushChange call of the active carried", sc.idx, st.idx, o.SID, o.Op),
					map[string]any{"scenario": sc.describe(), "applied": o})
			case p.Call < ep.ConnObserved:
				b.counts["C_preconnect_changes_replayed_on_stream"]++
			}
		}
	}
	ep.logPos = len(log)
	var obl []*pushRec
	bySID := map[string][]*pushRec{}
	for _, p := range b.pushes {
		if p.Ret != 0 && p.Call > ep.ConnObserved && p.Ret < upto.Call {
			obl = append(obl, p)
			bySID[p.SID] = append(bySID[p.SID], p)
		}
	}
	if len(puts[upto.Op]) == 0 {
		return // not applied within this interval: nothing to anchor the judgement on
	}
	uptoStamp := puts[upto.Op][0]
	at := map[uint64]int64{}
	for _, p := range obl {
		if p.Type != "delete" {
			if s := puts[p.Op]; len(s) > 0 {
				at[p.Op] = s[0]
			}
		}
	}
	for _, p := range obl {
		if p.Type != "delete" {
			continue
		}
		lo, hi := ep.ConnObserved, uptoStamp
		seenSelf := false
		for _, q := range bySID[p.SID] {
			if q == p {
				seenSelf = true
				continue
			}
			t, ok := at[q.Op]
			if !ok {
				continue
			}
			if !seenSelf && t > lo {
				lo = t
			}
			if seenSelf && t < hi {
				hi = t
			}
		}
		for _, d := range dels[p.SID] {
			if d > lo && d < hi {
				at[p.Op] = d
				break
			}
		}
	}
	var lost []*pushRec
	for _, p := range obl {
		if ep.judged[p.Op] {
			continue
		}
		ep.judged[p.Op] = true
		sc.nJudged++
		b.counts["C_obligated_pushes_judged"]++
		t, ok := at[p.Op]
		if !ok {
			lost = append(lost, p)
			ep.lost[p.Op] = true
			continue
		}
		ep.delivered++
		b.counts["C_pushes_delivered_"+p.Type]++
		if ep.overlapped() {
			b.counts["C_pushes_delivered_on_stream_with_same_host_overlap"]++
		}
		if ep.firstOldExit != 0 && p.Call > ep.firstOldExit {
			b.counts["C_pushes_delivered_after_old_handler_exit"]++
		}
		if n := len(puts[p.Op]); p.Type != "delete" && n > 1 {
			violation(sc.size(), compStream, ruleOrder, "applied-twice",
				fmt.Sprintf("layer C scenario %d standby %d: push #%d (%s %s op %d) was applied %d times within one connected interval", sc.idx, st.idx, p.Idx, p.Type, p.SID, p.Op, n),
				map[string]any{"scenario": sc.describe(), "push": p})
		}
		if p.Type != "delete" && t < ep.lastStamp && ep.lastPush != nil {
			cls := "reordered"
			if ep.lastPush.SID == p.SID {
				cls = "reordered-same-session"
			}
			violation(sc.size(), compBroadcast, ruleOrder, cls,
				fmt.Sprintf("layer C scenario %d standby %d: push #%d (%s %s op %d) returned before push #%d (%s %s op %d) was called, yet the standby applied it later", sc.idx, st.idx, ep.lastPush.Idx, ep.lastPush.Type, ep.lastPush.SID, ep.lastPush.Op, p.Idx, p.Type, p.SID, p.Op),
				map[string]any{"scenario": sc.describe(), "earlier_push": ep.lastPush, "later_push": p})
		}
		if p.Type != "delete" && t > ep.lastStamp { // a delete's place in the log is inferred, a Put's is known
			ep.lastStamp, ep.lastPush = t, p
		}
	}
	byClass := map[string][]*pushRec{}
	comp := map[string]string{}
	for _, p := range lost {
		cls, cmp := "not-sent", compBroadcast
		if st.px.relayedOp(p.Op) {
			cls, cmp = "received-not-applied:"+p.Type, compStream
		}
		byClass[cls] = append(byClass[cls], p)
		comp[cls] = cmp
	}
	for cls, ps := range byClass {
		firstLost := ps
		if len(firstLost) > 8 {
			firstLost = firstLost[:8]
		}
		b.counts["C_lost_"+cls] += len(ps)
		violation(sc.size(), comp[cls], ruleOrder, cls,
			fmt.Sprintf("layer C scenario %d standby %d: %d change(s) pushed while its stream #%d was connected were never applied although a change pushed later (sentinel op %d) was (first: push #%d %s %s op %d; stream context: %s)",
				sc.idx, st.idx, len(ps), ep.st.n, upto.Op, ps[0].Idx, ps[0].Type, ps[0].SID, ps[0].Op, sc.overlapClass(ep)),
			map[string]any{"scenario": sc.describe(), "standby": st.idx, "lost_pushes": len(ps), "first_lost": firstLost})
	}
}

// judgeConvergence is clause (iii) for one standby: its stream is up, a sentinel pushed after every
// other change has come through it, nobody is pushing.
func (sc *lcScenario) judgeConvergence(st *lcStandby) {
	ep := st.ep
	b := sc.base
	got := st.store.table()
	b.mu.Lock()
	want := b.model.clone()
	last := map[string]*pushRec{}
	for k, v := range b.lastOn {
		last[k] = v
	}
	b.mu.Unlock()
	sc.cnt("C_convergence_points_judged", 1)
	if act := b.actStore.table(); len(diffTables(act, want)) > 0 {
		harnessFailed.Store(true)
		fmt.Printf("layer C: harness model %s differs from the active's store %s\n", want, act)
	}
	ds := diffTables(got, want)
	if len(ds) == 0 {
		sc.cnt("C_convergence_points_equal", 1)
		return
	}
	var before, unexplained []map[string]any
	for _, d := range ds {
		p := last[d.SID]
		switch {
		case p != nil && ep.lost[p.Op]:
			sc.cnt("C_convergence_diffs_explained_by_clause_ii", 1)
		case p == nil || p.Call < ep.ConnObserved:
			before = append(before, map[string]any{"difference": d, "last_change": p})
		default:
			unexplained = append(unexplained, map[string]any{"difference": d, "last_change": p})
		}
	}
	kinds := func(xs []map[string]any) string {
		var ks []tdiff
		for _, x := range xs {
			ks = append(ks, x["difference"].(tdiff))
		}
		return strings.Join(diffKinds(ks), "+")
	}
	if len(before) > 0 {
		violation(sc.size(), compLoop, ruleConv, "change-made-while-reconnecting-not-synchronised:"+kinds(before),
			fmt.Sprintf("layer C scenario %d standby %d: stream #%d up, active quiet, a later sentinel applied, yet standby %s != active %s: %d session(s) were last changed before this connection was established (while the standby was reconnecting) and neither its full sync nor the stream brought the change over",
				sc.idx, st.idx, ep.st.n, got, want, len(before)),
			map[string]any{"scenario": sc.describe(), "standby": got.String(), "active": want.String(), "sessions": before})
	}
	if len(unexplained) > 0 {
		violation(sc.size(), compLoop, ruleConv, "unexplained:"+kinds(unexplained),
			fmt.Sprintf("layer C scenario %d standby %d: stream #%d up, active quiet, a later sentinel applied, yet standby %s != active %s, and no clause (ii) violation accounts for %d of the differing sessions",
				sc.idx, st.idx, ep.st.n, got, want, len(unexplained)),
			map[string]any{"scenario": sc.describe(), "standby": got.String(), "active": want.String(), "sessions": unexplained})
	}
}

// ---------------------------------------------------------------- driver

func (sc *lcScenario) pushAndSettle(n int) error {
	sc.base.phase.Store("conn")
	for i := 0; i < n; i++ {
		sc.base.doOp(0, sc.rng, 30)
	}
	return sc.settleAll()
}

func (sc *lcScenario) run() error {
	if err := sc.start(); err != nil {
		return err
	}
	if len(sc.sbs) == 2 && sc.sameHost {
		sc.cnt("C_scenarios_two_standbys_one_address", 1)
	}
	if err := sc.pushAndSettle(1 + sc.rng.IntN(4)); err != nil {
		return err
	}
	for _, step := range sc.steps {
		st := sc.sbs[step.SB%len(sc.sbs)]
		n := 1 + sc.rng.IntN(5)
		switch step.Kind {
		case "cycle":
			if err := sc.doCycle(st, step); err != nil {
				return err
			}
		case "drop":
			sc.doDrop(st, false)
		case "dropall":
			for _, o := range sc.sbs {
				sc.doDrop(o, true)
			}
		case "storm":
			if err := sc.doStorm(st, step.N); err != nil {
				return err
			}
		case "burst":
			n = step.N
		}
		sc.done = append(sc.done, step.String())
		sc.cnt("C_steps_"+step.Kind, 1)
		if err := sc.pushAndSettle(n); err != nil {
			return err
		}
	}
	return nil
}

func (sc *lcScenario) signature() string {
	var parts []string
	for _, st := range sc.sbs {
		for _, e := range st.epochs {
			parts = append(parts, fmt.Sprintf("[sb%d %s ov=%d newer=%d exits=%d lost=%d silent=%v]", st.idx, e.EndWhy, e.overlapAtStart, e.newerRegistered, e.oldExits, len(e.lost), e.silent))
		}
	}
	sort.Strings(parts)
	return fmt.Sprintf("n%d same=%v %s %s", len(sc.sbs), sc.sameHost, strings.Join(sc.done, " "), strings.Join(parts, ""))
}

// ---------------------------------------------------------------- test entry

func TestLayerC(t *testing.T) {
	if child {
		layerCChild(t)
		return
	}
	t.Parallel()
	id := wdEnter("layer C")
	defer wdLeave(id)
	spawnChildren(t, "TestLayerC", "C", run.Pick(64, 1600), run.Pick(2, 4))
}

func layerCChild(t *testing.T) {
	id := wdEnter("layer C child")
	defer wdLeave(id)
	var lo, hi int
	if _, err := fmt.Sscanf(os.Getenv("VERIF_C13_RANGE"), "%d:%d", &lo, &hi); err != nil {
		t.Fatal("VERIF_C13_RANGE: ", err)
	}
	workers := 4
	var wg sync.WaitGroup
	next := int64(lo - 1)
	var sampled atomic.Int64
	for w := 0; w < workers; w++ {
		wg.Add(1)
		go func() {
			defer wg.Done()
			for {
				i := int(atomic.AddInt64(&next, 1))
				if i >= hi {
					return
				}
				sc := newLcScenario(i)
				err := sc.run()
				sc.stop()
				for k, v := range sc.base.counts {
					col.Count(k, v)
				}
				if err == errStopped {
					col.Count("C_scenarios_stopped_after_repeated_finding", 1)
					err = nil
				}
				if err != nil {
					col.Inconclusive(fmt.Sprintf("layerC-%d", i), err.Error())
					col.Count("C_scenarios_inconclusive", 1)
					continue
				}
				col.Eval()
				col.Count("C_scenarios", 1)
				for _, p := range sc.base.pushes {
					col.Count("C_push_"+p.Type+"_"+p.Phase, 1)
				}
				sig := sc.signature()
				col.Distinct("C_scenario_signatures", sig)
				if sc.nJudged > 0 && sc.nOverlap > 0 {
					col.Nontrivial("C|" + sig)
				}
				if sc.nOverlap > 1 && len(sc.sbs) == 2 && sampled.Add(1) <= 1 {
					col.Sample(sc.describe())
				}
			}
		}()
	}
	wg.Wait()
}
