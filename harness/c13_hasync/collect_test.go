package c13

import (
	"encoding/json"
	"os"
	"sync"
)

// collector gathers what a layer-B child process observed; the parent replays it into vk.Run.
// (Layer B runs in child processes so that a process-fatal error in the syncers -- "concurrent map
// writes", a panic in a server goroutine -- is attributed to the workload instead of killing the check.)
type collector struct {
	mu       sync.Mutex
	Counts   map[string]int             `json:"counts"`
	Dist     map[string]map[string]bool `json:"distinct"`
	Nontriv  map[string]bool            `json:"nontrivial"`
	Samples  []any                      `json:"samples"`
	Evals    int                        `json:"evals"`
	Incon    [][2]string                `json:"inconclusive"`
	Viol     []*vrec                    `json:"violations"`
	Finished bool                       `json:"finished"`
}

var col = &collector{Counts: map[string]int{}, Dist: map[string]map[string]bool{}, Nontriv: map[string]bool{}}

func (c *collector) Count(k string, n int) { c.mu.Lock(); c.Counts[k] += n; c.mu.Unlock() }
func (c *collector) Eval()                 { c.mu.Lock(); c.Evals++; c.mu.Unlock() }
func (c *collector) Nontrivial(k string)   { c.mu.Lock(); c.Nontriv[k] = true; c.mu.Unlock() }
func (c *collector) Distinct(set, k string) {
	c.mu.Lock()
	if c.Dist[set] == nil {
		c.Dist[set] = map[string]bool{}
	}
	c.Dist[set][k] = true
	c.mu.Unlock()
}
func (c *collector) Sample(v any) {
	c.mu.Lock()
	if len(c.Samples) < 2 {
		c.Samples = append(c.Samples, v)
	}
	c.mu.Unlock()
}
func (c *collector) Inconclusive(cas, reason string) {
	c.mu.Lock()
	c.Incon = append(c.Incon, [2]string{cas, reason})
	c.mu.Unlock()
}

func (c *collector) dump(path string) error {
	c.mu.Lock()
	defer c.mu.Unlock()
	vmu.Lock()
	c.Viol = nil
	for _, v := range vmap {
		c.Viol = append(c.Viol, v)
	}
	vmu.Unlock()
	c.Finished = true
	b, err := json.Marshal(c)
	if err != nil {
		return err
	}
	return os.WriteFile(path, b, 0o644)
}

// mergeChild replays a child's observations into the parent's vk.Run and violation collector.
func mergeChild(path string) error {
	b, err := os.ReadFile(path)
	if err != nil {
		return err
	}
	var c collector
	if err := json.Unmarshal(b, &c); err != nil {
		return err
	}
	for k, n := range c.Counts {
		run.Count(k, n)
	}
	for set, m := range c.Dist {
		for k := range m {
			run.Distinct(set, k)
		}
	}
	for k := range c.Nontriv {
		run.Nontrivial(k)
	}
	for _, s := range c.Samples {
		run.Sample(s)
	}
	run.Evals(c.Evals)
	for _, i := range c.Incon {
		run.Inconclusive(i[0], i[1])
	}
	for _, v := range c.Viol {
		violationN(v)
	}
	return nil
}
