package c13

import (
	"fmt"
	"io"
	"net/http"
	"os"
	"strings"
	"sync"
	"sync/atomic"
	"testing"
	"time"

	"github.com/codelaboratoryltd/bng/pkg/ha"
)

// ---------------------------------------------------------------- layer F: sessions change while the active builds a full-sync reply; then a resync while it is quiet
//
// Layers B-E place changes around a snapshot exchange as the link sees it: before the request is
// forwarded to the active, after the reply has left it. The active's session manager is not
// bound to the link: it stores and pushes a change whenever a subscriber logs on or off, also while
// the GET /ha/sessions handler is in the middle of its work -- after it has read the table and
// before it has finished the reply. Such a reply legitimately lacks the change (the standby has
// attached its stream before it asks, so the change reaches it there). What the active must not do
// is treat that reply as a picture of its table later on.
//
// Layer F drives the layer-E set-up (real active, real standby through Start(), front end that
// relays snapshot exchanges one at a time) through episodes of
//
//	1. cut of the stream, 0-2 changes while the standby is away;
//	2. reconnection during which the active's store, inside the whole-table read made by the GET
//	   handler, lets the session manager in: 0-3 changes right before the read and/or 1-3 right
//	   after it (each stored first, then pushed, as everywhere), optionally followed by a sentinel
//	   pushed from the same place (pacing: the driver can then wait until the standby has applied
//	   them from its stream, or cut at once);
//	3. NO further change on the active; 1-2 further full syncs: the stream is cut (EOF or reset)
//	   and the standby reconnects, its connect-time snapshot held by the front end; in some
//	   episodes a second party (a plain GET from the harness, as a second standby would make)
//	   asks first;
//	4. a convergence point (sentinel through the stream) and a few plain changes.
//
// Oracle, from the property text. Clause (i) "immediately after a completed full synchronisation
// the standby's table equals the active's snapshot": a snapshot the active serves while its table
// is not changing (no store write between the arrival of the request and the reply) is its table
// (rule snapshot-equals-active-table), and the standby's table right after that full sync is that
// snapshot (judged when the driver knows that no earlier change is still on its way: the sentinel
// pushed in step 2 after the read was applied from the stream before the cut). Clause (iii): the
// convergence point of step 4.

type ffQuiet struct {
	Who          string `json:"who"` // standby-reconnect | second-party-get
	Cut          string `json:"stream_cut,omitempty"`
	Request      int    `json:"request,omitempty"`
	Snapshot     string `json:"snapshot_served"`
	Active       string `json:"active_table"`
	Equal        bool   `json:"equal"`
	Outcome      string `json:"outcome,omitempty"`
	StandbyAfter string `json:"standby_table_after_that_full_sync,omitempty"`
}

type ffEpisode struct {
	Episode        int        `json:"episode"`
	Position       string     `json:"changes_made"` // after-table-read | before-table-read | before-and-after
	Away           int        `json:"changes_while_standby_away"`
	Before         []string   `json:"changes_right_before_the_handlers_table_read"`
	After          []string   `json:"changes_right_after_the_handlers_table_read"`
	HookSentinel   uint64     `json:"sentinel_pushed_after_them_op,omitempty"`
	Paced          string     `json:"before_the_next_cut"`
	HookedSnapshot string     `json:"snapshot_served_by_that_exchange"`
	StandbyThen    string     `json:"standby_table_before_the_next_cut"`
	Quiet          []*ffQuiet `json:"full_syncs_while_active_quiet"`

	drained bool // every change pushed so far was applied by the standby from its stream, or went down with it
}

func (sc *feScenario) describeF(wins []feWinRec, pts []*fePoint) map[string]any {
	eps := sc.fEps
	if len(eps) > 6 {
		eps = eps[len(eps)-6:]
	}
	return map[string]any{"layer": "F", "scenario": sc.idx, "seed": run.Seed, "full_sync_interval_of_standby": sc.ivName, "heartbeat_interval": sc.base.hb.String(),
		"episodes": eps, "snapshot_requests_seen_by_front_end": sc.fe.exchCopy(30), "convergence_points": pts, "last_changes_on_active": sc.base.pushTail(30),
		"legend": "a real active and a real standby (Start()) behind a front end that relays snapshot exchanges one at a time. In every episode the stream is cut and, during the reconnection, the active's store lets the session manager change sessions in the middle of the GET /ha/sessions handler's whole-table read (right before it / right after it; store first, then PushChange). Then nothing changes on the active any more, and full syncs are made: the stream is cut and the standby reconnects (its snapshot exchange held and recorded by the front end), or a second party sends a plain GET. A snapshot served while the active is quiet must be the active's table; the standby must hold it afterwards; at the convergence point (sentinel through the stream) the tables must be equal."}
}

func newFfScenario(i int) *feScenario {
	rng := run.SubRand("F", i)
	b := &scenario{idx: i, rng: rng, sentRng: run.SubRand("F-sentinel", i), model: table{}, byOp: map[uint64]*pushRec{}, lastOn: map[string]*pushRec{}, counts: map[string]int{}, pushers: 1}
	b.phase.Store("pre")
	nIDs := 3 + rng.IntN(3)
	b.ids = [][]string{nil}
	for k := 0; k < nIDs; k++ {
		b.ids[0] = append(b.ids[0], fmt.Sprintf("s%d", k))
	}
	sc := &feScenario{idx: i, rng: rng, base: b, fEps: []*ffEpisode{}}
	sc.interval, sc.ivName = 5*time.Minute, "default-5m"
	if i%4 == 3 {
		sc.interval, sc.ivName = 50*time.Millisecond, "50ms"
	}
	return sc
}

var ffPositions = []string{"after-table-read", "before-and-after", "after-table-read", "before-table-read"}

// first change made after the read, by scenario and episode (the rest is random)
var ffFirst = []feSpec{{"add", "other"}, {"update", "any"}, {"delete", "any"}, {"any", "any"}}

func (sc *feScenario) sentinelAs(phase string) *pushRec {
	sc.opMu.Lock()
	defer sc.opMu.Unlock()
	sc.base.phase.Store(phase)
	return sc.base.sentinel()
}

// holdsVersion: does the rendering of a table ("{s0@5 s1@7}") hold version "sid@op"?
func holdsVersion(tbl, ver string) bool {
	for _, f := range strings.Fields(strings.Trim(tbl, "{}")) {
		if f == ver {
			return true
		}
	}
	return false
}

// hookedReconnect is steps 1 and 2 of an episode.
func (sc *feScenario) hookedReconnect(ep *ffEpisode) error {
	rng := sc.rng
	fd := sc.fe.fd
	fd.armGate()
	mode := pick(rng, "clean", "abort")
	if st := fd.cutLive(mode); st != nil {
		deadline := time.Now().Add(20 * time.Second)
		for !st.ended.Load() && time.Now().Before(deadline) {
			time.Sleep(100 * time.Microsecond)
		}
		sc.cnt("F_cuts_"+mode, 1)
	}
	ep.Away = rng.IntN(3)
	for i := 0; i < ep.Away; i++ {
		sc.opMu.Lock()
		sc.base.phase.Store("away")
		sc.base.doOp(0, rng, 40)
		sc.opMu.Unlock()
	}
	sc.cnt("F_changes_while_standby_away", ep.Away)
	var before, after []feSpec
	if ep.Position != "after-table-read" {
		for i, n := 0, 1+rng.IntN(3); i < n; i++ {
			before = append(before, feSpec{pick(rng, "any", "update", "delete", "add"), "any"})
		}
	}
	if ep.Position != "before-table-read" {
		after = append(after, ffFirst[(sc.idx+ep.Episode)%len(ffFirst)])
		for i, n := 0, rng.IntN(3); i < n; i++ {
			after = append(after, feSpec{pick(rng, "any", "update", "delete", "add"), pick(rng, "any", "same")})
		}
	}
	withSentinel := rng.IntN(3) != 0
	touched := map[string]bool{}
	fired := make(chan struct{})
	var sent *pushRec
	// the callbacks run on the active's handler goroutine while the driver waits for fired
	h := &readHook{
		before: func() {
			ep.Before = sc.changes(before, sc.modelCopy(), "snapshot-read-before", touched)
		},
		after: func() {
			defer close(fired)
			ep.After = sc.changes(after, sc.modelCopy(), "snapshot-read-after", touched)
			if withSentinel {
				sent = sc.sentinelAs("snapshot-read-after")
			}
		},
	}
	seen0 := sc.fe.state().seen
	sc.base.actStore.armRead(h)
	fd.releaseGate()
	t := time.NewTimer(60 * time.Second)
	select {
	case <-fired:
		t.Stop()
	case <-t.C:
		if !sc.base.actStore.disarmRead(h) {
			<-fired // a read took the hook: let it finish (the watchdog bounds this)
		}
		return sc.fail("no snapshot request reached the active within 60 s of the standby being let in")
	}
	sc.cnt("F_changes_right_before_table_read_of_get_handler", len(ep.Before))
	sc.cnt("F_changes_right_after_table_read_of_get_handler", len(ep.After))
	if len(ep.After) > 0 {
		sc.cnt("F_snapshots_built_with_changes_after_table_read", 1)
	}
	if len(ep.Before) > 0 {
		sc.cnt("F_snapshots_built_with_changes_before_table_read", 1)
	}
	if err := sc.awaitLink(); err != nil {
		return err
	}
	if !sc.fe.waitIdle(30 * time.Second) {
		return sc.fail("the snapshot exchange of the reconnection was still in progress after 30 s")
	}
	if ex := sc.fe.exchCopy(1); len(ex) == 1 {
		ep.HookedSnapshot = ex[0].Snapshot
		// evidence: how many of the versions made after the read the reply lacks
		for _, c := range ep.After {
			if f := strings.Fields(c); len(f) == 2 && f[0] != "delete" && !holdsVersion(ep.HookedSnapshot, f[1]) {
				sc.cnt("F_versions_made_after_table_read_absent_from_that_reply", 1)
			}
		}
	}
	// pacing: cut at once, or once the standby has applied those changes from its stream
	ep.Paced = "not waited for"
	if sent != nil {
		ep.HookSentinel = sent.Op
		if rng.IntN(4) != 0 {
			ep.Paced = "sentinel not applied yet"
			for try := 0; try < 4; try++ {
				if _, ok := sc.store.waitPut(sent.Op, pace(try)); ok {
					ep.Paced = "standby applied them and the sentinel behind them"
					// drained: the sentinel was pushed after the read, so when the reply does not hold it the
					// standby can only have it from the stream (FIFO: everything pushed earlier is through or gone)
					// (and no other snapshot exchange has taken place since)
					if !holdsVersion(ep.HookedSnapshot, fmt.Sprintf("sentinel@%d", sent.Op)) && sc.fe.state().seen == seen0+1 {
						ep.drained = true
					}
					break
				}
			}
		}
	}
	sc.cnt("F_next_cut_"+map[bool]string{true: "after_standby_applied_those_changes_from_stream", false: "without_waiting_for_standby"}[ep.drained], 1)
	ep.StandbyThen = sc.store.table().String()
	return nil
}

// judgeQuietSnapshot: a full-sync reply served while nothing changes on the active.
func (sc *feScenario) judgeQuietSnapshot(ep *ffEpisode, q *ffQuiet, snap table) {
	want := sc.modelCopy()
	if act := sc.base.actStore.table(); len(diffTables(act, want)) > 0 {
		harnessFailed.Store(true)
		fmt.Printf("layer F: harness model %s differs from the active's store %s\n", want, act)
	}
	q.Snapshot, q.Active = snap.String(), want.String()
	ds := diffTables(snap, want)
	q.Equal = len(ds) == 0
	sc.cnt("F_snapshots_served_while_quiet_judged", 1)
	sc.cnt("F_snapshots_served_while_quiet_judged_"+strings.ReplaceAll(q.Who, "-", "_"), 1)
	if len(ep.After) > 0 {
		sc.cnt("F_snapshots_served_while_quiet_after_snapshot_built_with_changes_after_table_read", 1)
	}
	if q.Equal {
		return
	}
	kinds := strings.Join(diffKinds(ds), "+")
	violation(sc.size(), compGet, ruleSnap, "served-while-quiet-after-snapshot-built-while-sessions-changed",
		fmt.Sprintf("layer F scenario %d episode %d: GET /ha/sessions (%s) served %s while the active's table is %s and nothing changes on the active (%s); the last changes on the active were made while an earlier full-sync reply was being built: right before the handler's table read %v, right after it %v (stored first, then pushed), and that earlier reply was %s",
			sc.idx, ep.Episode, q.Who, snap, want, kinds, ep.Before, ep.After, ep.HookedSnapshot),
		map[string]any{"scenario": sc.describe(), "episode": ep, "differences": ds, "legend_differences": "standby/got = the snapshot served, expected = the active's table"})
}

// secondPartyGet: a plain GET /ha/sessions straight to the active, as another standby would send.
func (sc *feScenario) secondPartyGet(ep *ffEpisode) error {
	q := &ffQuiet{Who: "second-party-get"}
	resp, err := sc.fe.fd.cl.Get("http://" + sc.fe.fd.upstream + "/ha/sessions")
	if err != nil {
		return sc.fail("second-party GET: " + err.Error())
	}
	body, err := io.ReadAll(resp.Body)
	resp.Body.Close()
	if err != nil || resp.StatusCode != http.StatusOK {
		return sc.fail(fmt.Sprintf("second-party GET: status %d, %v", resp.StatusCode, err))
	}
	msg, err := ha.DecodeSyncMessage(body)
	if err != nil {
		return sc.fail("second-party GET: reply not decodable: " + err.Error())
	}
	ep.Quiet = append(ep.Quiet, q)
	sc.judgeQuietSnapshot(ep, q, tableOf(msg.Sessions))
	return nil
}

// quietResync is one full sync of the standby with the active quiet: cut, reconnection, the
// connect-time snapshot exchange held by the front end so that it is recorded and its end is known.
func (sc *feScenario) quietResync(ep *ffEpisode) error {
	q := &ffQuiet{Who: "standby-reconnect"}
	w := sc.outage(ep.Episode, 0, true)
	defer func() {
		sc.fe.closeWindow(w)
		sc.fe.setHold(false)
	}()
	t := time.NewTimer(60 * time.Second)
	defer t.Stop()
	select {
	case <-w.arrived:
	case <-t.C:
		if sc.fe.disarm(w) {
			return sc.fail("the standby made no snapshot request within 60 s of being let in")
		}
		<-w.arrived
	}
	ex := w.ex
	q.Request = ex.N
	close(w.forward)
	t2 := time.NewTimer(60 * time.Second)
	defer t2.Stop()
	select {
	case <-w.built:
	case <-w.done:
		q.Outcome = sc.exchOutcome(ex)
		ep.Quiet = append(ep.Quiet, q)
		sc.cnt("F_quiet_resync_exchange_failed_before_snapshot_was_built", 1)
		return nil
	case <-t2.C:
		return sc.fail("the active did not answer a forwarded snapshot request within 60 s")
	}
	sc.fe.mu.Lock()
	snap := ex.snap.clone()
	sc.fe.mu.Unlock()
	ep.Quiet = append(ep.Quiet, q)
	sc.judgeQuietSnapshot(ep, q, snap)
	close(w.release)
	t3 := time.NewTimer(60 * time.Second)
	defer t3.Stop()
	select {
	case <-w.done:
	case <-t3.C:
		return sc.fail("a released snapshot exchange did not finish within 60 s")
	}
	q.Outcome = sc.exchOutcome(ex)
	got := sc.store.table()
	q.StandbyAfter = got.String()
	if q.Outcome != "applied" {
		sc.cnt("F_quiet_resync_completion_not_observed", 1)
		ep.drained = false
		return nil
	}
	sc.cnt("F_quiet_full_syncs_of_standby_completed", 1)
	if !ep.drained {
		// a change pushed earlier may still be on its way to the new stream: the table may move
		sc.cnt("F_quiet_full_syncs_not_judged_for_clause_i_earlier_changes_possibly_in_flight", 1)
		return nil
	}
	// ---- clause (i): right after the completed full sync the standby holds the snapshot
	sc.cnt("F_quiet_full_syncs_judged_clause_i", 1)
	if ds := diffTables(got, snap); len(ds) > 0 {
		kinds := strings.Join(diffKinds(ds), "+")
		violation(sc.size(), compFull, ruleFull, "resync-while-quiet:"+kinds,
			fmt.Sprintf("layer F scenario %d episode %d: the standby completed a full sync (Stats().LastSyncTime moved) of snapshot %s while the active was quiet and every earlier change had gone through its previous stream, yet its table is %s (%s)", sc.idx, ep.Episode, snap, got, kinds),
			map[string]any{"scenario": sc.describe(), "episode": ep, "differences": ds})
	}
	return nil
}

func (sc *feScenario) runF() error {
	rng := sc.rng
	if err := sc.start(); err != nil {
		return err
	}
	if err := sc.sb.Start(); err != nil {
		return sc.fail(err.Error())
	}
	if err := sc.awaitLink(); err != nil {
		return err
	}
	if err := sc.point(0, "connect", nil); err != nil {
		return err
	}
	nEp := 2 + rng.IntN(run.Pick(2, 3))
	for e := 1; e <= nEp; e++ {
		ep := &ffEpisode{Episode: e, Position: ffPositions[(sc.idx+e)%len(ffPositions)]}
		sc.fEps = append(sc.fEps, ep)
		if err := sc.hookedReconnect(ep); err != nil {
			return err
		}
		// ---- the active is quiet from here to the convergence point
		second := rng.IntN(3) == 0
		nQuiet := 1 + rng.IntN(2)
		for k := 0; k < nQuiet; k++ {
			if second && k == 0 {
				if err := sc.secondPartyGet(ep); err != nil {
					return err
				}
			}
			if err := sc.quietResync(ep); err != nil {
				return err
			}
			if err := sc.awaitLink(); err != nil {
				return err
			}
		}
		if second && rng.IntN(2) == 0 {
			if err := sc.secondPartyGet(ep); err != nil {
				return err
			}
		}
		sc.fctx = ep
		err := sc.point(e, "resync while quiet after a snapshot built while sessions changed", nil)
		sc.fctx = nil
		if err != nil {
			return err
		}
		sc.sig = append(sc.sig, fmt.Sprintf("[%s b=%d a=%d sent=%v %s quiet=%d second=%v]", ep.Position, len(ep.Before), len(ep.After), ep.HookSentinel != 0, strings.Fields(ep.Paced)[0], len(ep.Quiet), second))
		// ---- plain changes on the live stream
		for i, n := 0, 1+rng.IntN(4); i < n; i++ {
			sc.opMu.Lock()
			sc.base.phase.Store("conn")
			sc.base.doOp(0, rng, 30)
			sc.opMu.Unlock()
		}
		if err := sc.point(e, "changes on the stream", nil); err != nil {
			return err
		}
	}
	return nil
}

// ---------------------------------------------------------------- test entry

func TestLayerF(t *testing.T) {
	if child {
		layerFChild(t)
		return
	}
	t.Parallel()
	id := wdEnter("layer F")
	defer wdLeave(id)
	spawnChildren(t, "TestLayerF", "F", run.Pick(32, 400), run.Pick(2, 4))
}

func layerFChild(t *testing.T) {
	id := wdEnter("layer F child")
	defer wdLeave(id)
	var lo, hi int
	if _, err := fmt.Sscanf(os.Getenv("VERIF_C13_RANGE"), "%d:%d", &lo, &hi); err != nil {
		t.Fatal("VERIF_C13_RANGE: ", err)
	}
	workers := 4
	var wg sync.WaitGroup
	next := int64(lo - 1)
	var sampled atomic.Int64
	for w := 0; w < workers; w++ {
		wg.Add(1)
		go func() {
			defer wg.Done()
			for {
				i := int(atomic.AddInt64(&next, 1))
				if i >= hi {
					return
				}
				sc := newFfScenario(i)
				err := sc.runF()
				sc.stop()
				for k, v := range sc.base.counts {
					if strings.HasPrefix(k, "E_") { // the layer-E machinery counts under its own name: keep layer E's floors layer E's
						k = "F_" + k[2:]
					}
					col.Count(k, v)
				}
				if err != nil {
					col.Inconclusive(fmt.Sprintf("layerF-%d", i), err.Error())
					col.Count("F_scenarios_inconclusive", 1)
					continue
				}
				col.Eval()
				col.Count("F_scenarios", 1)
				for _, p := range sc.base.pushes {
					col.Count("F_push_"+p.Type+"_"+p.Phase, 1)
				}
				sig := sc.ivName + strings.Join(sc.sig, "")
				col.Distinct("F_scenario_signatures", sig)
				judged := 0
				for _, ep := range sc.fEps {
					if len(ep.After) > 0 {
						judged += len(ep.Quiet)
					}
				}
				if judged > 0 {
					col.Nontrivial("F|" + sig)
				}
				if judged > 1 && sampled.Add(1) <= 1 {
					col.Sample(sc.describe())
				}
			}
		}()
	}
	wg.Wait()
}
