package c04

import (
	"fmt"
	"math/rand/v2"
	"net"
	"os"
	"runtime"
	"sort"
	"sync"
	"sync/atomic"
	"testing"
	"testing/synctest"
	"time"

	"verif/harness/internal/vk"
)

var run *vk.Run

var progress atomic.Int64

func TestMain(m *testing.M) {
	run = vk.Start("C04", "exploration")
	run.Rule("frame sequences over {PADI,PADR,PADT, LCP cfg-req/ack/nak/term-req/echo, PAP good/bad/error, CHAP response, IPCP cfg-req (0.0.0.0 / client-chosen / with DNS / empty) and cfg-ack, IP, idle tick} x source station {A,B owners, F,G others} x session id {own, another live session's, dead} x Ethernet destination {server, broadcast, another station}, injected as Ethernet frames into the real pppoe.Server.receiveLoop on an in-memory raw socket in virtual time, against RADIUS {none, scripted accept/reject/challenge by credentials, unreachable, silent (timeout, real time)}: breadth-first from the post-PADS table (two live sessions, one dead id) with fingerprint pruning to the depth bound, plus seeded random walks of 10-60 frames with aimed handshake fragments; plus packet sequences against the stand-alone pppoe.Authenticator. non-trivial = distinct sequence whose judged part delivered a PPP session-stage frame or PADT carrying the id of a live session (the lookup and the gated handlers were reached) and on which both clauses were evaluated. Session-id counter: the same table reached after 65534 sessions (breadth-first spec and random walks whose 16-bit id counter is placed at 65531..0 after the prelude); scenarios with live sessions of A/B at ids out of {1,2,65535} (grid: every non-empty subset x 8 phase assignments over {LCP, authentication, IPCP, established}; random: 1-4 sessions at ids 65528..65535/1..6) followed by 1-12 PADRs of other stations with the counter placed at 65533..2 (grid) / 65528..6 (random), the stations then using the ids they were handed (PADT / own handshake / LCP terminate), owners probing with LCP echo and IPCP configure-request before and after; and real PADR/PADT churn of a third station taking the counter once round with sessions 1, 2 (and 65535) up. non-trivial there = distinct scenario in which a PADR of another station was answered and at least one owner session was compared across the foreign frames. Foreign source addresses: source MAC out of {the AC's own MAC, broadcast, all-zero, a group address, the owner's MAC with bit k flipped (k = 0..47), another live session's owner, third-party stations F/G} x every frame type {PADI, PADR, PADT (session id in the PPPoE header), LCP cfg-req/ack/nak/term-req/echo, PAP good/bad/error, CHAP response, IPCP cfg-req x4 / cfg-ack, IP} carrying the id of a live session x Ethernet destination {the AC, broadcast, the owner} x sessions of A and B in 16 phase pairs (grid), plus seeded random mixes over 1-3 victims with owner frames in between; the same sources also appear as letters of the breadth-first alphabet and in the random walks. non-trivial there = distinct scenario in which a foreign frame carrying a live id was taken by the receive loop (and judged per frame) and, in the grid, at least one owner session was compared across the case. Composed links: 1-3 sessions sharing one real pppoe.IPPool (1, 5 or 13 usable addresses, 0-2 held by other subscribers), each assembled from the real pppoe.Authenticator (PAP or CHAP) and pppoe.IPCPStateMachine with IPCP Up() called only from the authenticator's success callback (IPCP opened at creation / in the callback / by event; Close, Down or nothing on a refused exchange), driven in virtual time with seeded sequences over {IPCP cfg-req (0.0.0.0 / client-chosen / a pool address / the address last offered / with DNS / DNS-only / empty / with compression), cfg-ack of the automaton's own request, cfg-nak, term-req, term-ack, PAP-or-CHAP good/bad/error/stale-or-truncated, +4 s / +61 s, Down, Close, Open, re-authentication challenge} with aimed openings (request before any exchange, after a refused one, after an accepted one, while a neighbour is being served), against RADIUS {none, scripted, unreachable}; every link is judged after every event. non-trivial there = distinct sequence in which an IPCP Configure-Request carrying an IP-Address option reached a pool-backed link whose exchange had not been accepted and the link was judged")
	run.Assume("composed links: the pool is observed at the IPPoolAllocator interface (a recording pass-through around the real pppoe.IPPool): an address the automaton takes for a session is seen there")
	run.Assume("composed links: address-less IPCP replies to a link without accepted authentication (Configure-Reject, Configure-Ack of an empty or DNS-only request, DNS suggestions; the library automaton answers Configure-Requests even in Initial/Starting) are counted, not judged: no address is assigned, suggested or acknowledged and the automaton does not move")
	run.Assume("the harness-owned RADIUS server's log is the ground truth for 'accepted by RADIUS': each PAP/CHAP frame carries a unique user name and the server records its decision under it")
	run.Assume("with no RADIUS client configured the code documents accept-all; the gate is then 'a PAP exchange from the owner MAC was delivered to the live session' (DESIGN 5b)")
	run.Assume("an accepted exchange is never withdrawn by a later rejected one (the statement says 'only after ... was accepted'); establishment after a later rejection is counted, not judged")
	run.Assume("placing the session manager's id counter with the hook VerifC09SetNextSessionID yields the state reached by creating that many sessions over the server's life time (the churn cases reach it without the hook)")
	run.Assume("an owner's LCP Echo-Request / IPCP Configure-Request probe does not itself change its session (compared differentially before/after foreign frames; the idle timer is excluded)")
	run.Assume("Session fields are read through the exported struct / methods while the server is quiescent (synctest.Wait, or the unbuffered-socket handshake outside bubbles)")
	run.Floor("frames_delivered", 20000)
	run.Floor("foreign_frame_session_pairs_judged", 10000)
	run.Floor("session_snapshots_judged", 20000)
	run.Floor("established_with_permission_observed", 50)
	run.Floor("permissions_granted", 200)
	run.Floor("authenticator_steps_judged", 500)
	run.Floor("wrap_cases", 2000)
	run.Floor("pads_judged_against_ownership_record", 20000)
	run.Floor("padr_with_counter_at_reserved_id_0_and_id_1_live", 300)
	run.Floor("padr_with_counter_on_a_live_sessions_id", 1000)
	run.Floor("padr_answered_across_the_counter_wrap", 1000)
	run.Floor("wrap_owner_sessions_compared_across_foreign_frames", 2000)
	run.Floor("wrap_owner_probe_pairs_compared", 4000)
	run.Floor("wrap_distinct_victim_id_x_state_x_counter_cells", 72)
	run.Floor("churn_padrs_answered_after_the_counter_wrapped", 4)
	run.Floor("churn_owner_sessions_compared_across_foreign_frames", 2)
	run.Floor("cases_random_walk_near_wrap", 500)
	run.Floor("foreign_source_cases", 2500)
	run.Floor("foreign_frames_on_live_ids_taken_by_the_receive_loop", 50000)
	run.Floor("foreign_frames_on_live_id_from_the-acs-own-mac", 3000)
	run.Floor("foreign_frames_on_live_id_from_broadcast-address", 3000)
	run.Floor("foreign_frames_on_live_id_from_all-zero-address", 3000)
	run.Floor("foreign_frames_on_live_id_from_group-address", 1500)
	run.Floor("foreign_frames_on_live_id_from_owners-mac-with-one-bit-flipped", 50000)
	run.Floor("foreign_frames_on_live_id_from_another-live-sessions-owner", 3000)
	run.Floor("foreign_frames_on_live_id_from_third-party-station", 3000)
	run.Floor("foreign_frames_on_live_id_to_the-ac", 20000)
	run.Floor("foreign_frames_on_live_id_to_broadcast", 20000)
	run.Floor("foreign_frames_on_live_id_to_the-owner", 20000)
	run.Floor("foreign_frames_on_live_id_of_a_session_holding_an_address", 10000)
	run.Floor("foreign_distinct_source_class_x_frame_type_x_destination_cells", 7*18*3)
	run.Floor("foreign_distinct_bit_positions_of_the_owners_mac_flipped", 48)
	run.Floor("foreign_owner_sessions_compared_across_foreign_frames", 4000)
	run.Floor("foreign_owner_probe_pairs_compared", 8000)
	run.Floor("cases_composed_link", 2500)
	run.Floor("composed_link_snapshots_judged_without_accepted_auth", 15000)
	run.Floor("composed_address_requests_judged_without_accepted_auth", 2500)
	run.Floor("composed_address_requests_judged_no-auth-attempt", 1500)
	run.Floor("composed_address_requests_judged_auth-rejected", 400)
	run.Floor("composed_address_requests_judged_auth-not-completed", 500)
	run.Floor("composed_address_requests_without_accepted_auth_in_state_Initial", 1500)
	run.Floor("composed_address_requests_without_accepted_auth_in_state_Starting", 600)
	run.Floor("composed_address_requests_after_accepted_auth", 1500)
	run.Floor("composed_addresses_allocated_after_accepted_auth", 1000)
	run.Floor("composed_addresses_suggested_after_accepted_auth", 800)
	run.Floor("composed_addresses_acknowledged_after_accepted_auth", 250)
	run.Floor("composed_steps_on_opened_link_after_accepted_auth", 120)

	var err error
	if srvScripted, err = newRadSrv(false); err != nil {
		fmt.Println("cannot start scripted RADIUS server:", err)
		os.Exit(2)
	}
	if srvSilent, err = newRadSrv(true); err != nil {
		fmt.Println("cannot start silent RADIUS server:", err)
		os.Exit(2)
	}
	closedPort = probeClosedPort()

	stop := make(chan struct{})
	go watchdog(stop)
	code := m.Run()
	close(stop)
	run.Extra("radius_requests_seen_by_scripted_server", srvScripted.asked.Load())
	run.Extra("radius_requests_seen_by_silent_server", srvSilent.asked.Load())
	ec := run.Finish()
	if code != 0 && ec == 0 {
		ec = 2
	}
	os.Exit(ec)
}

// probeClosedPort finds a loopback UDP port on which a datagram is refused at
// once (ICMP port unreachable), outside the ephemeral range so that no other
// process binds it during the run. 0 = none found (the mode is then skipped).
func probeClosedPort() int {
	for _, p := range []int{1, 7, 9, 13, 19} {
		c, err := net.DialUDP("udp4", nil, &net.UDPAddr{IP: net.IPv4(127, 0, 0, 1), Port: p})
		if err != nil {
			continue
		}
		c.Write([]byte{0})
		c.SetReadDeadline(time.Now().Add(500 * time.Millisecond))
		_, err = c.Read(make([]byte, 16))
		c.Close()
		if err != nil {
			if ne, ok := err.(net.Error); ok && ne.Timeout() {
				continue
			}
			return p
		}
	}
	return 0
}

// watchdog: a wall-clock guard whose firing is inconclusive, never a verdict.
func watchdog(stop chan struct{}) {
	last, lastT := progress.Load(), time.Now()
	for {
		select {
		case <-stop:
			return
		case <-time.After(2 * time.Second):
		}
		if p := progress.Load(); p != last {
			last, lastT = p, time.Now()
			continue
		}
		if time.Since(lastT) > 120*time.Second {
			run.Inconclusive("watchdog", fmt.Sprintf("no case completed for 120 s after %d cases (a virtual-time bubble cannot advance)", last))
			run.Finish()
			os.Exit(2)
		}
	}
}

// ---------------------------------------------------------------- observation buffer (per worker, flushed into the run)

type obsBuf struct {
	cnt  map[string]int
	dist map[string]map[string]struct{}
}

func newObs() *obsBuf { return &obsBuf{cnt: map[string]int{}, dist: map[string]map[string]struct{}{}} }

func (o *obsBuf) count(k string, n int) { o.cnt[k] += n }

func (o *obsBuf) distinct(set, key string) {
	m := o.dist[set]
	if m == nil {
		m = map[string]struct{}{}
		o.dist[set] = m
	}
	m[key] = struct{}{}
}

func (o *obsBuf) flush() {
	for k, n := range o.cnt {
		run.Count(k, n)
	}
	for s, m := range o.dist {
		for k := range m {
			run.Distinct(s, k)
		}
	}
	o.cnt, o.dist = map[string]int{}, map[string]map[string]struct{}{}
}

// ---------------------------------------------------------------- running one sequence

type result struct {
	fp      string
	trace   []string
	nontriv bool
	err     string
}

// execSeq runs prelude+seq against a fresh server. Letters before judgeFrom (an
// index into seq) were judged when the parent sequence ran; the prelude is
// judged only when judgePrelude is set.
func execSeq(t *testing.T, sp *spec, seq []sym, judgePrelude bool, judgeFrom int, wantFP bool, ob *obsBuf) (res result) {
	body := func() {
		c, err := newCase(sp, ob)
		if err != nil {
			res.err = err.Error()
			return
		}
		jf := len(sp.Prelude) + judgeFrom
		if judgePrelude {
			jf = 0
		}
		full := append(append([]sym(nil), sp.Prelude...), seq...)
		for i, s := range full {
			if sp.SetCounter && i == len(sp.Prelude) {
				c.placeCounter(sp.Counter)
			}
			judged := i >= jf
			if live := c.step(s, judged); live && judged && i >= len(sp.Prelude) && (s.K.isSession() || s.K == kPADT) && s.toServer() {
				res.nontriv = true
			}
			if c.incon != "" {
				break
			}
		}
		if sp.SetCounter && len(full) == len(sp.Prelude) && c.incon == "" {
			c.placeCounter(sp.Counter)
		}
		if c.incon != "" {
			res.err = c.incon
		}
		if wantFP && sp.Bubble {
			res.fp = c.fingerprint()
		}
		res.trace = c.trace
		c.stop()
	}
	if sp.Bubble {
		synctest.Test(t, func(t *testing.T) { body() })
	} else {
		body()
	}
	progress.Add(1)
	return res
}

// parMap runs f(i) for i in [0,n) on a pool of parallel subtests.
func parMap(t *testing.T, n int, f func(t *testing.T, i int, ob *obsBuf)) {
	workers := runtime.NumCPU()
	if workers > n {
		workers = n
	}
	if workers < 1 {
		return
	}
	var next atomic.Int64
	t.Run("pool", func(t *testing.T) {
		for w := 0; w < workers; w++ {
			t.Run(fmt.Sprintf("w%d", w), func(t *testing.T) {
				t.Parallel()
				ob := newObs()
				for {
					i := int(next.Add(1)) - 1
					if i >= n {
						break
					}
					f(t, i, ob)
				}
				ob.flush()
			})
		}
	})
}

func record(sp *spec, seq []sym, r result, kindOfCase string) {
	if r.err != "" {
		run.Inconclusive(sp.Name+":"+seqString(seq), r.err)
		return
	}
	run.Eval()
	run.Count("cases_"+kindOfCase, 1)
	if r.nontriv {
		run.Nontrivial(sp.Name + "|" + seqString(seq))
	}
}

// ---------------------------------------------------------------- specs

// post-PADS table: session 1 owned by A, session 2 owned by B, session 3 (owned by F) already terminated.
var postPADS = []sym{{K: kPADI, Src: 0, Dst: 1}, {K: kPADR, Src: 0}, {K: kPADR, Src: 1}, {K: kPADR, Src: 2}, {K: kPADT, Src: 2, ID: 3}}

func bfsSpecs() []*spec {
	out := []*spec{
		{Name: "bfs/radius=none/pap", Radius: "none", AuthType: "pap", Pool: "10.0.0.0/29", DNS: true, Prelude: postPADS, Bubble: true},
		{Name: "bfs/radius=scripted/pap", Radius: "scripted", AuthType: "pap", Pool: "10.0.0.0/29", DNS: true, Prelude: postPADS, Bubble: true},
		{Name: "bfs/radius=scripted/chap/pool-of-one", Radius: "scripted", AuthType: "chap", Pool: "10.0.0.0/30", DNS: false, Prelude: postPADS, Bubble: true},
		// same table, reached after 65534 sessions: the PADR letters are answered with the last id and then run into 0, 1, 2
		{Name: "bfs/radius=none/pap/id-counter-at-65535", Radius: "none", AuthType: "pap", Pool: "10.0.0.0/29", DNS: true, Prelude: postPADS, Bubble: true, SetCounter: true, Counter: 65535},
	}
	if closedPort != 0 {
		out = append(out, &spec{Name: "bfs/radius=unreachable/pap", Radius: "unreachable", AuthType: "pap", Pool: "10.0.0.0/29", DNS: true, Prelude: postPADS, Bubble: true})
	}
	return out
}

// bfsAlphabet: every kind x {owner on own id, owner on the other live id, a
// station without a session on a live id, owner on the dead id}.
func bfsAlphabet(sp *spec) []sym {
	type st struct {
		src int
		id  uint16
	}
	// A on its own session 1; B (owner of live session 2) and F (owns nothing live) on A's session; A on the dead id 3
	pairs := []st{{0, 1}, {1, 1}, {2, 1}, {0, 3}}
	kinds := []kind{kPADT, kLCPReq, kLCPAck, kLCPNak, kLCPTerm, kLCPEcho, kPAPGood, kPAPBad, kCHAPResp, kIPCPReq0, kIPCPReqIP, kIPCPAck, kIP}
	if sp.Radius == "scripted" {
		kinds = append(kinds, kPAPErr)
	}
	var a []sym
	for _, k := range kinds {
		for _, p := range pairs {
			a = append(a, sym{K: k, Src: p.src, ID: p.id})
		}
	}
	// B's own session takes part with the letters that move the pool and the table; A attacks it once per family
	for _, k := range []kind{kPAPGood, kIPCPAck, kPADT} {
		a = append(a, sym{K: k, Src: 1, ID: 2})
	}
	for _, k := range []kind{kPAPGood, kLCPTerm} {
		a = append(a, sym{K: k, Src: 0, ID: 2})
	}
	a = append(a, sym{K: kPADI, Src: 2, Dst: 1}, sym{K: kPADR, Src: 0}, sym{K: kPADR, Src: 2}, sym{K: kTick})
	// sources that are no station of the exchange, on A's session: the AC's own address, the
	// broadcast and the all-zero address, A's address with its lowest bit flipped (foreign_test.go)
	for _, alt := range []int{altAC, altBcast, altZero, altFlip(0, 0)} {
		a = append(a, sym{K: kPADT, ID: 1, Alt: alt})
	}
	for _, k := range []kind{kLCPTerm, kPAPGood, kIPCPAck} {
		a = append(a, sym{K: k, ID: 1, Alt: altAC})
	}
	return a
}

func TestExhaustive(t *testing.T) {
	depth := run.Pick(4, 6)
	capPerLevel := run.Pick(2500, 40000)
	run.Extra("exhaustive_depth", depth)
	fixed := true
	for _, sp := range bfsSpecs() {
		alpha := bfsAlphabet(sp)
		seen := map[string]bool{}
		ob := newObs()
		root := execSeq(t, sp, nil, true, 0, true, ob)
		ob.flush()
		if root.err != "" {
			t.Fatalf("%s: %s", sp.Name, root.err)
		}
		record(sp, nil, root, "exhaustive")
		seen[root.fp] = true
		frontier := [][]sym{nil}
		sampled := false
		for d := 0; d < depth && len(frontier) > 0; d++ {
			type job struct {
				seq []sym
			}
			var jobs []job
			for _, q := range frontier {
				for _, s := range alpha {
					jobs = append(jobs, job{append(append([]sym(nil), q...), s)})
				}
			}
			res := make([]result, len(jobs))
			last := d == depth-1
			parMap(t, len(jobs), func(t *testing.T, i int, ob *obsBuf) {
				res[i] = execSeq(t, sp, jobs[i].seq, false, d, !last, ob)
				if d != 2 {
					res[i].trace = nil // only level 3 is sampled; do not hold a million traces
				}
			})
			var next [][]sym
			for i, r := range res {
				record(sp, jobs[i].seq, r, "exhaustive")
				if r.err != "" || last {
					continue
				}
				if !seen[r.fp] {
					seen[r.fp] = true
					next = append(next, jobs[i].seq)
				}
				if !sampled && d == 2 && r.nontriv && len(r.trace) > 0 {
					sampled = true
					run.Sample(map[string]any{"kind": "exhaustive", "spec": sp.Name, "sequence_after_prelude": seqString(jobs[i].seq), "trace": r.trace})
				}
			}
			run.Count(fmt.Sprintf("bfs_new_states_depth_%d", d+1), len(next))
			if len(next) > capPerLevel {
				// deterministic thinning: keep the lexicographically spread subset; recorded as non-exhaustive
				fixed = false
				run.Count("bfs_states_dropped_by_cap", len(next)-capPerLevel)
				step := float64(len(next)) / float64(capPerLevel)
				var thin [][]sym
				for i := 0; i < capPerLevel; i++ {
					thin = append(thin, next[int(float64(i)*step)])
				}
				next = thin
			}
			frontier = next
		}
		run.Count("bfs_distinct_states", len(seen))
		run.Distinct("specs", sp.Name)
	}
	run.Extra("exhaustive_to_depth_without_cap", fixed)
}

// ---------------------------------------------------------------- random walks

type walkGen struct {
	rng     *rand.Rand
	created []int // owner station of session id i+1 (aiming only; the oracle never reads it)
	// walks whose id counter does not start at 1: predicted id of created[i] and
	// predicted counter (aiming only)
	track bool
	ids   []uint16
	next  uint16
}

// idAt is the (predicted) session id of the i-th session created.
func (g *walkGen) idAt(i int) uint16 {
	if g.track {
		return g.ids[i]
	}
	return uint16(i + 1)
}

func (g *walkGen) anyID() uint16 {
	switch x := g.rng.IntN(10); {
	case x < 7 && len(g.created) > 0:
		return g.idAt(g.rng.IntN(len(g.created)))
	case x < 8:
		return uint16(1 + g.rng.IntN(8))
	case x < 9:
		if g.track {
			return g.next
		}
		return uint16(len(g.created) + 1)
	default:
		return []uint16{0, 9, 255, 65535}[g.rng.IntN(4)]
	}
}

func (g *walkGen) noteCreated(src int) {
	g.created = append(g.created, src)
	if !g.track {
		return
	}
	for taken := true; taken; {
		taken = g.next == 0
		for _, id := range g.ids {
			taken = taken || id == g.next
		}
		if taken {
			g.next++
		}
	}
	g.ids = append(g.ids, g.next)
	g.next++
}

func (g *walkGen) emit(out *[]sym, s sym) {
	if s.K == kPADR && s.toServer() {
		g.noteCreated(s.Src)
	}
	*out = append(*out, s)
}

func (g *walkGen) gen(n int, scripted bool) []sym {
	var out []sym
	kinds := []kind{kPADI, kPADR, kPADT, kLCPReq, kLCPAck, kLCPNak, kLCPTerm, kLCPEcho, kPAPGood, kPAPBad, kPAPErr, kCHAPResp, kIPCPReq0, kIPCPReqIP, kIPCPReqDNS, kIPCPReqEmpty, kIPCPAck, kIP, kTick}
	for len(out) < n {
		dst := 0
		if x := g.rng.IntN(20); x == 0 {
			dst = 2
		} else if x < 3 {
			dst = 1
		}
		switch x := g.rng.IntN(100); {
		case x < 12 || len(g.created) == 0:
			g.emit(&out, sym{K: kPADR, Src: g.rng.IntN(4), Dst: dst})
		case x < 30:
			// aimed fragment of the intended handshake for one session, from its owner or from somebody else
			idx := g.rng.IntN(len(g.created))
			id := g.idAt(idx)
			src := g.created[idx]
			if g.rng.IntN(4) == 0 {
				src = g.rng.IntN(4)
			}
			frag := []kind{kLCPReq, kLCPAck, kPAPGood, kIPCPReq0, kIPCPAck, kIP}
			if g.rng.IntN(3) == 0 {
				frag[2] = []kind{kPAPBad, kPAPErr, kCHAPResp}[g.rng.IntN(3)]
			}
			from := g.rng.IntN(len(frag))
			for _, k := range frag[from:] {
				s := sym{K: k, Src: src, ID: id}
				if g.rng.IntN(8) == 0 {
					s.Src = g.rng.IntN(4) // an intruder in the middle of the handshake
				}
				g.emit(&out, s)
			}
		default:
			k := kinds[g.rng.IntN(len(kinds))]
			if k == kTick && g.rng.IntN(3) != 0 {
				k = kLCPEcho
			}
			s := sym{K: k, Src: g.rng.IntN(4), ID: g.anyID(), Dst: dst}
			if g.rng.IntN(6) == 0 {
				// a source that is no station of the exchange (foreign_test.go)
				s.Alt = []int{altAC, altBcast, altZero, altMcast, altFlip(g.rng.IntN(2), g.rng.IntN(48)), altFlip(g.rng.IntN(2), g.rng.IntN(8))}[g.rng.IntN(6)]
				s.SID = g.rng.IntN(2) == 0
			}
			g.emit(&out, s)
		}
	}
	return out
}

func walkSpec(rng *rand.Rand, i int) *spec {
	modes := []string{"none", "scripted", "scripted", "scripted"}
	if closedPort != 0 {
		modes = append(modes, "unreachable")
	}
	sp := &spec{Radius: modes[rng.IntN(len(modes))], AuthType: []string{"pap", "pap", "chap", "both"}[rng.IntN(4)],
		Pool: []string{"10.0.0.0/29", "10.0.0.0/30", "10.0.0.0/28", ""}[rng.IntN(4)], DNS: rng.IntN(2) == 0, Bubble: true}
	if rng.IntN(2) == 0 {
		sp.Prelude = postPADS
	}
	sp.Name = fmt.Sprintf("walk%d/radius=%s/%s/pool=%s/dns=%v/prelude=%d", i, sp.Radius, sp.AuthType, sp.Pool, sp.DNS, len(sp.Prelude))
	return sp
}

func TestRandomWalks(t *testing.T) {
	n := run.Pick(2000, 50000)
	var sampleMu sync.Mutex
	samples := 0
	parMap(t, n, func(t *testing.T, i int, ob *obsBuf) {
		rng := run.SubRand("walk", i)
		sp := walkSpec(rng, i)
		g := &walkGen{rng: rng}
		for _, s := range sp.Prelude {
			if s.K == kPADR {
				g.created = append(g.created, s.Src)
			}
		}
		seq := g.gen(10+rng.IntN(51), sp.Radius == "scripted")
		r := execSeq(t, sp, seq, true, 0, false, ob)
		record(sp, seq, r, "random_walk")
		ob.count("walk_frames", len(seq))
		if i%500 == 7 {
			sampleMu.Lock()
			if samples < 2 && r.err == "" {
				samples++
				run.Sample(map[string]any{"kind": "random-walk", "spec": sp.Name, "trace": r.trace})
			}
			sampleMu.Unlock()
		}
	})
}

// TestRandomWalksNearWrap: the same walks on a server whose id counter stands
// just below its 16-bit wrap once the prelude (sessions 1 and 2 live) has been
// played, so that the PADRs of the walk are answered with the last ids, run
// into the reserved id 0 and into the ids of the sessions that are still up.
func TestRandomWalksNearWrap(t *testing.T) {
	n := run.Pick(800, 20000)
	parMap(t, n, func(t *testing.T, i int, ob *obsBuf) {
		rng := run.SubRand("walkwrap", i)
		sp := walkSpec(rng, i)
		sp.SetCounter = true
		sp.Counter = []uint16{65531, 65532, 65533, 65534, 65535, 65535, 0, 0}[rng.IntN(8)]
		sp.Name = fmt.Sprintf("near-wrap-%s/counter=%d", sp.Name, sp.Counter)
		g := &walkGen{rng: rng, track: true, next: 1}
		for _, s := range sp.Prelude {
			if s.K == kPADR {
				g.noteCreated(s.Src)
			}
		}
		g.next = sp.Counter
		seq := g.gen(10+rng.IntN(51), sp.Radius == "scripted")
		r := execSeq(t, sp, seq, true, 0, false, ob)
		record(sp, seq, r, "random_walk_near_wrap")
		ob.count("walk_frames", len(seq))
		if i == 5 && r.err == "" {
			run.Sample(map[string]any{"kind": "random-walk near the id-counter wrap", "spec": sp.Name, "trace": r.trace})
		}
	})
}

// TestRadiusTimeout: the RADIUS 'timeout' outcome needs a server that stays
// silent, which cannot run in virtual time (a network read is not durably
// blocking); these walks run in real time with a 25 ms client timeout. No
// oracle reads the clock.
func TestRadiusTimeout(t *testing.T) {
	n := run.Pick(64, 600)
	parMap(t, n, func(t *testing.T, i int, ob *obsBuf) {
		rng := run.SubRand("timeout", i)
		sp := &spec{Radius: "timeout", AuthType: "pap", Pool: "10.0.0.0/29", DNS: rng.IntN(2) == 0, Bubble: false}
		sp.Prelude = []sym{{K: kPADR, Src: 0}, {K: kPADR, Src: 1}}
		sp.Name = fmt.Sprintf("timeout%d/dns=%v", i, sp.DNS)
		var seq []sym
		paps := 0
		for len(seq) < 6+rng.IntN(8) {
			k := []kind{kLCPAck, kPAPGood, kPAPBad, kIPCPReq0, kIPCPReqIP, kIPCPAck, kIP, kLCPEcho, kPADT, kPADR}[rng.IntN(10)]
			if k == kPAPGood || k == kPAPBad {
				if paps >= 3 {
					continue
				}
				paps++
			}
			seq = append(seq, sym{K: k, Src: rng.IntN(3), ID: uint16(1 + rng.IntN(3))})
		}
		r := execSeq(t, sp, seq, true, 0, false, ob)
		record(sp, seq, r, "radius_timeout_walk")
		if i == 0 && r.err == "" {
			run.Sample(map[string]any{"kind": "radius-timeout (real time)", "spec": sp.Name, "trace": r.trace})
		}
	})
}

func sortedKeys(m map[string]bool) []string {
	var k []string
	for s := range m {
		k = append(k, s)
	}
	sort.Strings(k)
	return k
}
