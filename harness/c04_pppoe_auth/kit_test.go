package c04

// Harness kit for C04: the frame alphabet with an independent encoder/decoder
// (nothing of bng's serialisers is used), the scripted RADIUS server the harness
// owns, and the case runner that drives the real pppoe.Server through its real
// receive loop on an in-memory raw socket. Nothing here decides a verdict; the
// oracle lives in monitor_test.go.

import (
	"context"
	"crypto/md5"
	"encoding/binary"
	"fmt"
	"net"
	"sort"
	"strings"
	"sync"
	"sync/atomic"
	"testing/synctest"
	"time"

	"github.com/codelaboratoryltd/bng/pkg/pppoe"
	"github.com/codelaboratoryltd/bng/pkg/radius"
	"go.uber.org/zap"
)

// ---------------------------------------------------------------- stations

var (
	serverMAC = net.HardwareAddr{0x02, 0, 0, 0, 0, 0xfe}
	bcastMAC  = net.HardwareAddr{0xff, 0xff, 0xff, 0xff, 0xff, 0xff}
	strayMAC  = net.HardwareAddr{0x02, 0, 0, 0, 0, 0xfd} // some other station on the segment
	peerMACs  = []net.HardwareAddr{{0x02, 0, 0, 0, 0, 0xa1}, {0x02, 0, 0, 0, 0, 0xa2}, {0x02, 0, 0, 0, 0, 0xa3}, {0x02, 0, 0, 0, 0, 0xa4}}
)

const peerNames = "ABFG"

func peerOf(mac string) string {
	for i, m := range peerMACs {
		if m.String() == mac {
			return string(peerNames[i])
		}
	}
	if n, ok := altNameByMAC[mac]; ok {
		return n
	}
	return mac
}

// ---------------------------------------------------------------- alphabet

type kind int

const (
	kPADI kind = iota
	kPADR
	kPADT
	kLCPReq
	kLCPAck
	kLCPNak
	kLCPTerm
	kLCPEcho
	kPAPGood
	kPAPBad
	kPAPErr
	kCHAPResp
	kIPCPReq0
	kIPCPReqIP
	kIPCPReqDNS
	kIPCPReqEmpty
	kIPCPAck
	kIP
	kTick
	nKinds
)

var kindName = [...]string{"padi", "padr", "padt", "lcp-cfg-req", "lcp-cfg-ack", "lcp-cfg-nak", "lcp-term-req", "lcp-echo-req",
	"pap-good", "pap-bad", "pap-err", "chap-resp", "ipcp-cfg-req-0.0.0.0", "ipcp-cfg-req-specific", "ipcp-cfg-req-dns", "ipcp-cfg-req-empty", "ipcp-cfg-ack", "ip", "tick"}

// handler of bng that a frame kind is demultiplexed to (used as the component of a finding)
var kindHandler = [...]string{"pppoe.Server.handlePADI", "pppoe.Server.handlePADR", "pppoe.Server.handlePADT",
	"pppoe.Server.handleLCPConfigRequest", "pppoe.Server.handleLCPConfigAck", "pppoe.Server.handleLCPConfigNak", "pppoe.Server.handleLCPTermRequest", "pppoe.Server.handleLCPEchoRequest",
	"pppoe.Server.handlePAP", "pppoe.Server.handlePAP", "pppoe.Server.handlePAP", "pppoe.Server.handleSession",
	"pppoe.Server.handleIPCPConfigRequest", "pppoe.Server.handleIPCPConfigRequest", "pppoe.Server.handleIPCPConfigRequest", "pppoe.Server.handleIPCPConfigRequest", "pppoe.Server.handleIPCPConfigAck",
	"pppoe.Server.handleIPPacket", "pppoe.Server.cleanupLoop"}

func (k kind) isAuth() bool    { return k == kPAPGood || k == kPAPBad || k == kPAPErr || k == kCHAPResp }
func (k kind) isSession() bool { return k >= kLCPReq && k <= kIP }

// sym is one letter: a frame of kind K from peer Src carrying session id ID
// (ignored for PADI/PADR unless SID is set), Ethernet destination Dst (0 server,
// 1 broadcast, 2 a station that takes no part, 3+k station k of peerMACs).
// Alt > 0: the Ethernet source is altSrcs[Alt] (the AC's own address, the
// broadcast / all-zero address, an owner's address with one bit flipped ...)
// instead of the address of station Src (foreign_test.go).
type sym struct {
	K   kind
	Src int
	ID  uint16
	Dst int
	Alt int
	SID bool // PADI/PADR: the PPPoE header carries ID in its session-id field (RFC 2516 wants 0 there)
}

func (s sym) srcMAC() net.HardwareAddr {
	if s.Alt > 0 {
		return altSrcs[s.Alt].MAC
	}
	return peerMACs[s.Src]
}

func (s sym) srcName() string {
	if s.Alt > 0 {
		return altSrcs[s.Alt].Name
	}
	return string(peerNames[s.Src])
}

// toServer: the receive loop takes frames addressed to the AC or to everybody.
func (s sym) toServer() bool { return s.Dst == 0 || s.Dst == 1 }

func (s sym) dstMAC() net.HardwareAddr {
	switch {
	case s.Dst == 1:
		return bcastMAC
	case s.Dst == 2:
		return strayMAC
	case s.Dst >= 3:
		return peerMACs[s.Dst-3]
	}
	return serverMAC
}

func (s sym) String() string {
	if s.K == kTick {
		return "tick"
	}
	d := ""
	switch {
	case s.Dst == 1:
		d = "(bcast)"
	case s.Dst == 2:
		d = "(to-other-station)"
	case s.Dst >= 3:
		d = fmt.Sprintf("(to-%c)", peerNames[s.Dst-3])
	}
	if (s.K == kPADI || s.K == kPADR) && !s.SID {
		return fmt.Sprintf("%s:%s%s", s.srcName(), kindName[s.K], d)
	}
	return fmt.Sprintf("%s>%d:%s%s", s.srcName(), s.ID, kindName[s.K], d)
}

func seqString(q []sym) string {
	p := make([]string, len(q))
	for i, s := range q {
		p[i] = s.String()
	}
	return strings.Join(p, " ")
}

const (
	goodPassword  = "open-sesame"
	badPassword   = "let-me-in"
	errPassword   = "challenge-me"
	radiusSecret  = "c04-shared-secret"
	tickAdvance   = 40 * time.Second
	sessionIdle   = 60 * time.Second
	specificIPReq = "192.0.2.77" // an address the client picks for itself
)

// ---------------------------------------------------------------- encoder (independent of bng)

func u16(v uint16) []byte { return []byte{byte(v >> 8), byte(v)} }

func tlv16(t uint16, v []byte) []byte {
	return append(append(u16(t), u16(uint16(len(v)))...), v...)
}

func opt(t byte, v ...byte) []byte { return append([]byte{t, byte(2 + len(v))}, v...) }

func cp(code, id byte, data []byte) []byte {
	b := append([]byte{code, id}, u16(uint16(4+len(data)))...)
	return append(b, data...)
}

func eth(dst, src net.HardwareAddr, et uint16, payload []byte) []byte {
	f := append(append(append([]byte{}, dst...), src...), u16(et)...)
	return append(f, payload...)
}

func pppoeHdr(code byte, sid uint16, payload []byte) []byte {
	h := append([]byte{0x11, code}, u16(sid)...)
	h = append(h, u16(uint16(len(payload)))...)
	return append(h, payload...)
}

func buildFrame(s sym, user string, ident byte) []byte {
	dst := s.dstMAC()
	src := s.srcMAC()
	hu := tlv16(0x0103, []byte{0xc0, byte(s.Src), ident})
	var discID uint16
	if s.SID {
		discID = s.ID
	}
	switch s.K {
	case kPADI:
		return eth(dst, src, 0x8863, pppoeHdr(0x09, discID, append(tlv16(0x0101, nil), hu...)))
	case kPADR:
		tags := append(tlv16(0x0101, []byte("internet")), tlv16(0x0104, []byte("0123456789abcdef"))...)
		return eth(dst, src, 0x8863, pppoeHdr(0x19, discID, append(tags, hu...)))
	case kPADT:
		return eth(dst, src, 0x8863, pppoeHdr(0xa7, s.ID, nil))
	}
	var proto uint16
	var body []byte
	switch s.K {
	case kLCPReq:
		proto, body = 0xc021, cp(1, ident, append(opt(1, 0x05, 0xd4), opt(5, 0xde, 0xad, byte(s.Src), ident)...))
	case kLCPAck:
		proto, body = 0xc021, cp(2, ident, append(opt(1, 0x05, 0xd4), opt(3, 0xc0, 0x23)...))
	case kLCPNak:
		proto, body = 0xc021, cp(3, ident, opt(1, 0x05, 0xc8))
	case kLCPTerm:
		proto, body = 0xc021, cp(5, ident, []byte("bye"))
	case kLCPEcho:
		proto, body = 0xc021, cp(9, ident, []byte{0xde, 0xad, byte(s.Src), 1})
	case kPAPGood, kPAPBad, kPAPErr:
		pw := goodPassword
		if s.K == kPAPBad {
			pw = badPassword
		} else if s.K == kPAPErr {
			pw = errPassword
		}
		d := append([]byte{byte(len(user))}, user...)
		d = append(append(d, byte(len(pw))), pw...)
		proto, body = 0xc023, cp(1, ident, d)
	case kCHAPResp:
		v := make([]byte, 16)
		for i := range v {
			v[i] = byte(i) ^ ident
		}
		d := append(append([]byte{16}, v...), user...)
		proto, body = 0xc223, cp(2, ident, d)
	case kIPCPReq0:
		proto, body = 0x8021, cp(1, ident, opt(3, 0, 0, 0, 0))
	case kIPCPReqIP:
		proto, body = 0x8021, cp(1, ident, opt(3, net.ParseIP(specificIPReq).To4()...))
	case kIPCPReqDNS:
		proto, body = 0x8021, cp(1, ident, append(opt(3, 0, 0, 0, 0), opt(129, 0, 0, 0, 0)...))
	case kIPCPReqEmpty:
		proto, body = 0x8021, cp(1, ident, nil)
	case kIPCPAck:
		proto, body = 0x8021, cp(2, ident, opt(3, 10, 0, 0, 1))
	case kIP:
		ip := make([]byte, 20)
		ip[0], ip[3], ip[8], ip[9] = 0x45, 20, 64, 17
		proto, body = 0x0021, ip
	}
	return eth(dst, src, 0x8864, pppoeHdr(0x00, s.ID, append(u16(proto), body...)))
}

// ---------------------------------------------------------------- decoder for frames the server sends

type outFrame struct {
	Dst    string
	Disc   bool
	Code   byte   // PPPoE code
	SID    uint16 // PPPoE session id
	Proto  uint16 // PPP protocol (session frames)
	PCode  byte   // control-protocol code
	PID    byte
	Opts   map[byte][]byte // configure options (LCP/IPCP)
	Broken bool
}

func (o outFrame) Name() string {
	if o.Broken {
		return "unparsable"
	}
	if o.Disc {
		switch o.Code {
		case 0x07:
			return "PADO"
		case 0x65:
			return "PADS"
		case 0xa7:
			return "PADT"
		}
		return fmt.Sprintf("disc-%02x", o.Code)
	}
	p := fmt.Sprintf("ppp-%04x", o.Proto)
	switch o.Proto {
	case 0xc021:
		p = "LCP"
	case 0xc023:
		p = "PAP"
	case 0xc223:
		p = "CHAP"
	case 0x8021:
		p = "IPCP"
	}
	names := map[byte]string{1: "ConfReq", 2: "ConfAck", 3: "ConfNak", 4: "ConfRej", 5: "TermReq", 6: "TermAck", 9: "EchoReq", 10: "EchoRep"}
	if o.Proto == 0xc023 {
		names = map[byte]string{1: "AuthReq", 2: "AuthAck", 3: "AuthNak"}
	}
	if o.Proto == 0xc223 {
		names = map[byte]string{1: "Challenge", 2: "Response", 3: "Success", 4: "Failure"}
	}
	if n, ok := names[o.PCode]; ok {
		return p + "-" + n
	}
	return fmt.Sprintf("%s-code%d", p, o.PCode)
}

func parseOut(f []byte) outFrame {
	var o outFrame
	if len(f) < 20 {
		o.Broken = true
		return o
	}
	o.Dst = net.HardwareAddr(f[0:6]).String()
	et := binary.BigEndian.Uint16(f[12:14])
	o.Code = f[15]
	o.SID = binary.BigEndian.Uint16(f[16:18])
	l := int(binary.BigEndian.Uint16(f[18:20]))
	if 20+l > len(f) {
		o.Broken = true
		return o
	}
	p := f[20 : 20+l]
	if et == 0x8863 {
		o.Disc = true
		return o
	}
	if et != 0x8864 || len(p) < 2 {
		o.Broken = true
		return o
	}
	o.Proto = binary.BigEndian.Uint16(p[0:2])
	p = p[2:]
	if o.Proto == 0x0021 {
		return o
	}
	if len(p) < 4 {
		o.Broken = true
		return o
	}
	o.PCode, o.PID = p[0], p[1]
	pl := int(binary.BigEndian.Uint16(p[2:4]))
	if pl < 4 || pl > len(p) {
		o.Broken = true
		return o
	}
	if (o.Proto == 0xc021 || o.Proto == 0x8021) && o.PCode >= 1 && o.PCode <= 4 {
		o.Opts = map[byte][]byte{}
		d := p[4:pl]
		for i := 0; i+2 <= len(d); {
			ol := int(d[i+1])
			if ol < 2 || i+ol > len(d) {
				o.Broken = true
				break
			}
			o.Opts[d[i]] = append([]byte(nil), d[i+2:i+ol]...)
			i += ol
		}
	}
	return o
}

// ---------------------------------------------------------------- scripted RADIUS server (owned by the harness, RFC 2865 from scratch)

type radSrv struct {
	conn   *net.UDPConn
	port   int
	silent bool
	log    sync.Map // user name -> decision ("accept","reject","challenge","asked-silent")
	asked  atomic.Int64
}

func newRadSrv(silent bool) (*radSrv, error) {
	c, err := net.ListenUDP("udp4", &net.UDPAddr{IP: net.IPv4(127, 0, 0, 1)})
	if err != nil {
		return nil, err
	}
	_ = c.SetReadBuffer(4 << 20)
	s := &radSrv{conn: c, port: c.LocalAddr().(*net.UDPAddr).Port, silent: silent}
	go s.loop()
	return s, nil
}

func (s *radSrv) loop() {
	buf := make([]byte, 4096)
	for {
		n, addr, err := s.conn.ReadFromUDP(buf)
		if err != nil {
			return
		}
		if n < 20 || buf[0] != 1 {
			continue
		}
		l := int(binary.BigEndian.Uint16(buf[2:4]))
		if l < 20 || l > n {
			continue
		}
		reqAuth := append([]byte(nil), buf[4:20]...)
		var user string
		var pwEnc []byte
		for i := 20; i+2 <= l; {
			al := int(buf[i+1])
			if al < 2 || i+al > l {
				break
			}
			switch buf[i] {
			case 1:
				user = string(buf[i+2 : i+al])
			case 2:
				pwEnc = append([]byte(nil), buf[i+2:i+al]...)
			}
			i += al
		}
		pw := radDecodePassword(pwEnc, reqAuth)
		s.asked.Add(1)
		if s.silent {
			s.log.Store(user, "asked-silent")
			continue
		}
		code, dec := byte(3), "reject"
		switch {
		case pwEnc == nil && strings.HasPrefix(user, "chapok"):
			code, dec = 2, "accept"
		case pw == goodPassword:
			code, dec = 2, "accept"
		case pw == errPassword:
			code, dec = 11, "challenge"
		}
		s.log.Store(user, dec)
		var attrs []byte
		if code == 2 {
			attrs = append([]byte{25, 6}, []byte("c04!")...) // Class
		}
		resp := append([]byte{code, buf[1]}, u16(uint16(20+len(attrs)))...)
		h := md5.New()
		h.Write(resp)
		h.Write(reqAuth)
		h.Write(attrs)
		h.Write([]byte(radiusSecret))
		resp = append(append(resp, h.Sum(nil)...), attrs...)
		_, _ = s.conn.WriteToUDP(resp, addr)
	}
}

func radDecodePassword(enc, reqAuth []byte) string {
	if len(enc) == 0 || len(enc)%16 != 0 {
		return ""
	}
	out := make([]byte, 0, len(enc))
	prev := reqAuth
	for i := 0; i < len(enc); i += 16 {
		h := md5.Sum(append([]byte(radiusSecret), prev...))
		for j := 0; j < 16; j++ {
			out = append(out, enc[i+j]^h[j])
		}
		prev = enc[i : i+16]
	}
	return strings.TrimRight(string(out), "\x00")
}

func (s *radSrv) decision(user string) string {
	if v, ok := s.log.Load(user); ok {
		return v.(string)
	}
	return ""
}

// ---------------------------------------------------------------- case specification and runner

type spec struct {
	Name     string
	Radius   string // none | scripted | unreachable | timeout
	AuthType string // pap | chap
	Pool     string
	DNS      bool
	Prelude  []sym
	Bubble   bool
	// SetCounter: once the prelude has been played the session manager's 16-bit id
	// counter is placed at Counter (the value it has after that many sessions were
	// created over the server's life time), so that later PADRs run near / across its wrap.
	SetCounter bool
	Counter    uint16
}

var (
	srvScripted *radSrv
	srvSilent   *radSrv
	closedPort  int
	userNonce   atomic.Int64
)

// sessView is what the harness observes of one session through the exported
// fields / methods of pppoe.Session and the pool snapshot.
type sessView struct {
	Key           string // RADIUS session id: unique per session object
	ID            uint16
	Owner         string
	State         string
	Authenticated bool
	AuthMethod    string
	Username      string
	ClientIP      string
	ServerIP      string
	PoolAddr      string
	PeerMRU       uint16
	PeerMagic     uint32
	MRU           uint16
	LCPIdent      uint8
	LastActivity  int64
	Class         string
	ServiceName   string
	HostUniq      string
	Established   bool
	BytesIn       uint64
	BytesOut      uint64
}

func (v sessView) brief() string {
	a := "unauth"
	if v.Authenticated {
		a = "auth"
	}
	ip := v.ClientIP
	if ip == "" {
		ip = "-"
	}
	return fmt.Sprintf("s%d[mac=%s %s %s ip=%s]", v.ID, peerOf(v.Owner), v.State, a, ip)
}

type snapshot struct {
	Sess      map[string]sessView
	PoolFree  []string
	PoolAlloc map[string]string
}

func (s snapshot) byID(id uint16) (sessView, bool) {
	for _, v := range s.Sess {
		if v.ID == id {
			return v, true
		}
	}
	return sessView{}, false
}

func (s snapshot) sorted() []sessView {
	out := make([]sessView, 0, len(s.Sess))
	for _, v := range s.Sess {
		out = append(out, v)
	}
	sort.Slice(out, func(i, j int) bool { return out[i].ID < out[j].ID })
	return out
}

func (s snapshot) brief() string {
	var p []string
	for _, v := range s.sorted() {
		p = append(p, v.brief())
	}
	if len(p) == 0 {
		return "(no sessions)"
	}
	return strings.Join(p, " ")
}

type caseCtx struct {
	sp      *spec
	srv     *pppoe.Server
	sock    *pppoe.VerifC04Socket
	cancel  context.CancelFunc
	mon     *monitor
	trace   []string
	nTicks  int
	nFrames int
	nonce   int64
	created int
	incon   string
	obs     *obsBuf
	lastEm  []outFrame // what the server sent in answer to the latest frame
	naive   int        // next id the counter would issue if nothing were occupied (-1 unknown); aiming and evidence only
}

func newCase(sp *spec, ob *obsBuf) (*caseCtx, error) {
	cfg := pppoe.ServerConfig{
		Interface: "verif0", ACName: "c04-ac", ServiceName: "internet",
		ServerIP: "10.0.0.1", ClientPool: sp.Pool, PoolGateway: "10.0.0.1",
		AuthType: sp.AuthType, SessionTimeout: sessionIdle,
	}
	if sp.DNS {
		cfg.PrimaryDNS, cfg.SecondaryDNS = "10.0.0.53", "10.0.0.54"
	}
	srv, err := pppoe.NewServerWithInterface(cfg, zap.NewNop(), &net.Interface{Index: 7, Name: "verif0", HardwareAddr: serverMAC, MTU: 1500})
	if err != nil {
		return nil, err
	}
	port := 0
	timeout := 5 * time.Second
	switch sp.Radius {
	case "scripted":
		port = srvScripted.port
	case "unreachable":
		port = closedPort
	case "timeout":
		port, timeout = srvSilent.port, 25*time.Millisecond
	}
	if port != 0 {
		rc, err := radius.NewClient(radius.ClientConfig{
			Servers: []radius.ServerConfig{{Host: "127.0.0.1", Port: port, Secret: radiusSecret}},
			NASID:   "c04-nas", Timeout: timeout, Retries: 1,
			RateLimit: radius.RateLimitConfig{RequestsPerSecond: 1e6, BurstSize: 100000},
		}, zap.NewNop())
		if err != nil {
			return nil, err
		}
		srv.SetRADIUSClient(rc)
	}
	depth := 0
	if sp.Bubble {
		depth = 8
	}
	c := &caseCtx{sp: sp, srv: srv, sock: pppoe.VerifC04NewSocket(depth), nonce: userNonce.Add(1), obs: ob, naive: 1}
	srv.VerifC04SetSocket(c.sock)
	ctx, cancel := context.WithCancel(context.Background())
	c.cancel = cancel
	go srv.VerifC04ReceiveLoop(ctx)
	if sp.Bubble {
		go srv.VerifC04CleanupLoop(ctx)
	}
	c.mon = newMonitor(c)
	return c, nil
}

func (c *caseCtx) stop() {
	c.cancel()
	c.sock.Close()
	if c.sp.Bubble {
		synctest.Wait()
	}
}

// settle returns when the server has finished everything the injected frame caused.
func (c *caseCtx) settle() {
	if c.sp.Bubble {
		synctest.Wait()
		return
	}
	// Outside a bubble the socket is unbuffered: a second (runt, ignored) frame is
	// only taken by the receive loop after the handler of the first has returned.
	c.sock.Inject([]byte{0})
}

func (c *caseCtx) snapshot() snapshot {
	free, alloc := c.srv.VerifC04Pool()
	sn := snapshot{Sess: map[string]sessView{}, PoolFree: free, PoolAlloc: alloc}
	for _, s := range c.srv.VerifC04Sessions().GetAllSessions() {
		v := sessView{
			Key: s.SessionID, ID: s.ID, Owner: s.ClientMAC.String(), State: s.GetState().String(),
			Authenticated: s.Authenticated, AuthMethod: s.AuthMethod, Username: s.Username,
			PeerMRU: s.PeerMRU, PeerMagic: s.PeerMagic, MRU: s.MRU, LCPIdent: s.LCPIdentifier,
			LastActivity: s.LastActivity.UnixNano(), Class: string(s.Class), ServiceName: s.ServiceName,
			HostUniq: fmt.Sprintf("%x", s.HostUniq), Established: s.IsEstablished(),
			BytesIn: s.BytesIn, BytesOut: s.BytesOut,
		}
		if s.ClientIP != nil {
			v.ClientIP = s.ClientIP.String()
		}
		if s.ServerIP != nil {
			v.ServerIP = s.ServerIP.String()
		}
		v.PoolAddr = alloc[s.SessionID]
		sn.Sess[v.Key] = v
	}
	return sn
}

func (c *caseCtx) userFor(step int) string { return fmt.Sprintf("u-n%d-f%d", c.nonce, step) }

// step delivers one letter and hands what was observed to the monitor. It
// reports whether the letter carried the id of a session that was live.
func (c *caseCtx) step(s sym, judge bool) bool {
	if s.K == kTick {
		if !c.sp.Bubble {
			return false
		}
		before := c.snapshot()
		time.Sleep(tickAdvance)
		synctest.Wait()
		c.nTicks++
		after := c.snapshot()
		c.mon.tick(before, after, judge)
		c.trace = append(c.trace, fmt.Sprintf("tick(+%s) => %s", tickAdvance, after.brief()))
		return false
	}
	if c.sp.Bubble {
		time.Sleep(time.Millisecond) // returns only when every goroutine of the bubble is idle
	}
	c.nFrames++
	user := c.userFor(c.nFrames)
	before := c.snapshot()
	c.sock.Inject(buildFrame(s, user, byte(c.nFrames)))
	c.settle()
	var em []outFrame
	collect := func() {
		for _, f := range c.sock.Drain() {
			em = append(em, parseOut(f))
		}
	}
	collect()
	after := c.snapshot()
	if !c.sp.Bubble {
		// the only asynchronous action of the server is the LCP Configure-Request it
		// sends from a goroutine after PADS: wait for it (bounded; inconclusive otherwise)
		want := 0
		for _, o := range em {
			if o.Disc && o.Code == 0x65 {
				want++
			}
		}
		have := func() int {
			n := 0
			for _, o := range em {
				if !o.Disc && o.Proto == 0xc021 && o.PCode == 1 {
					n++
				}
			}
			return n
		}
		deadline := time.Now().Add(5 * time.Second)
		for have() < want {
			if time.Now().After(deadline) {
				c.incon = "LCP Configure-Request after PADS not seen within 5 s"
				break
			}
			time.Sleep(50 * time.Microsecond)
			collect()
		}
		after = c.snapshot()
	}
	names := make([]string, len(em))
	for i, o := range em {
		names[i] = fmt.Sprintf("%s(sid=%d)", o.Name(), o.SID)
	}
	c.trace = append(c.trace, fmt.Sprintf("%s => %s ; sent: [%s]", s, after.brief(), strings.Join(names, " ")))
	c.lastEm = em
	c.mon.frame(s, user, before, after, em, judge)
	_, live := before.byID(s.ID)
	return live && ((s.K != kPADI && s.K != kPADR) || s.SID)
}

// placeCounter puts the session manager's id counter at v (hook; the state is
// the one reached after v-1 (mod 65536) sessions were created).
func (c *caseCtx) placeCounter(v uint16) {
	c.srv.VerifC09SetNextSessionID(v)
	c.naive = int(v)
	c.trace = append(c.trace, fmt.Sprintf("[id counter placed at %d]", v))
}
