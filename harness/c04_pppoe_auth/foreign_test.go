package c04

// The set of foreign source addresses.
//
// The second sentence of the property quantifies over every source MAC that is
// not the session's owner. Besides stations that take part in the exchange
// (another live session's owner, a third party) a frame on the segment can carry
// any 48-bit value as its source: the access concentrator's own address, the
// broadcast address, the all-zero address, a group address, or the owner's
// address with a single bit flipped. The receive loop filters on the
// destination only, so every one of them reaches the handlers.
//
// Scenarios here bring sessions of A and B (and F in the random part) up to a
// phase, take a baseline (owner probes, table), deliver every discovery
// (PADI/PADR/PADT, the session id in the PPPoE header) and session-stage frame
// type carrying the id of a live session from one class of foreign source, with
// destination the AC, the broadcast address or the owner itself, and judge
//   - per frame (monitor.frame, unchanged oracle): session object, state,
//     Authenticated, ClientIP, pool entry, presence in the table;
//   - across all frames of the case and differentially by the owner's own
//     exchanges (wrapWatch, wrap_test.go).
// Nothing is expected of what the server does *for* the foreign source (a PADR
// from the broadcast address may well be answered): only the sessions of other
// stations are compared.

import (
	"fmt"
	"math/rand/v2"
	"net"
	"strings"
	"testing"
	"testing/synctest"
)

type altSrc struct {
	Name   string
	MAC    net.HardwareAddr
	Class  string
	FlipOf int // station whose address this is with bit Bit flipped; -1 otherwise
	Bit    int // 0 = least significant bit of the last octet ... 47 = most significant bit of the first
}

const (
	altAC = 1 + iota
	altBcast
	altZero
	altMcast
	altFlip0 // first of 3 x 48 flipped addresses (stations A, B, F)
)

const flipStations = 3

var (
	altSrcs      []altSrc
	altNameByMAC = map[string]string{}
)

func init() {
	altSrcs = []altSrc{
		{},
		{Name: "AC-MAC", MAC: serverMAC, Class: "the-acs-own-mac", FlipOf: -1},
		{Name: "BCAST-MAC", MAC: bcastMAC, Class: "broadcast-address", FlipOf: -1},
		{Name: "ZERO-MAC", MAC: net.HardwareAddr{0, 0, 0, 0, 0, 0}, Class: "all-zero-address", FlipOf: -1},
		{Name: "MCAST-MAC", MAC: net.HardwareAddr{0x01, 0x00, 0x5e, 0x00, 0x00, 0x01}, Class: "group-address", FlipOf: -1},
	}
	for st := 0; st < flipStations; st++ {
		for bit := 0; bit < 48; bit++ {
			m := append(net.HardwareAddr(nil), peerMACs[st]...)
			m[5-bit/8] ^= 1 << (bit % 8)
			altSrcs = append(altSrcs, altSrc{Name: fmt.Sprintf("%c^bit%d", peerNames[st], bit), MAC: m, FlipOf: st, Bit: bit})
		}
	}
	for _, a := range altSrcs[1:] {
		if _, dup := altNameByMAC[a.MAC.String()]; !dup {
			altNameByMAC[a.MAC.String()] = a.Name
		}
	}
}

func altFlip(station, bit int) int { return altFlip0 + station*48 + bit }

// noteForeign records (evidence only) which class of foreign source a frame
// carrying the id of a live session came from, where it was addressed and in
// which state the session was.
func (m *monitor) noteForeign(s sym, src string, target sessView, before snapshot) {
	ob := m.c.obs
	owner := m.ownerOf(target.Key)
	class := ""
	if s.Alt > 0 {
		a := altSrcs[s.Alt]
		switch {
		case a.FlipOf < 0:
			class = a.Class
		case peerMACs[a.FlipOf].String() == owner:
			class = "owners-mac-with-one-bit-flipped"
			ob.distinct("foreign_owner_mac_bit_positions_flipped", fmt.Sprint(a.Bit))
		default:
			class = "another-stations-mac-with-one-bit-flipped"
		}
	} else {
		class = "third-party-station"
		for k := range before.Sess {
			if m.ownerOf(k) == src {
				class = "another-live-sessions-owner"
				break
			}
		}
	}
	dst := "the-ac"
	switch {
	case s.Dst == 1:
		dst = "broadcast"
	case s.Dst >= 3 && peerMACs[s.Dst-3].String() == owner:
		dst = "the-owner"
	case s.Dst >= 2:
		dst = "another-station"
	}
	ob.count("foreign_frames_on_live_id_from_"+class, 1)
	ob.count("foreign_frames_on_live_id_to_"+dst, 1)
	ob.distinct("foreign_src_cells", class+"|"+kindName[s.K]+"|"+dst)
	ob.distinct("foreign_src_cells_by_state", class+"|"+kindName[s.K]+"|"+dst+"|"+target.State)
	if target.PoolAddr != "" {
		ob.count("foreign_frames_on_live_id_of_a_session_holding_an_address", 1)
	}
}

// ---------------------------------------------------------------- scenarios

// source selectors of a case
const (
	selAC = iota
	selBcast
	selZero
	selMcast
	selOtherOwner
	selThirdF
	selThirdG
	selFlip
	nSel
)

var selName = [...]string{"ac-own-mac", "broadcast", "all-zero", "group", "other-live-owner", "third-party-F", "third-party-G", "owner-bit-flipped"}

// foreignKinds: every discovery and session-stage frame type of the alphabet.
var foreignKinds = []kind{kPADI, kPADR, kPADT, kLCPReq, kLCPAck, kLCPNak, kLCPTerm, kLCPEcho, kPAPGood, kPAPBad, kPAPErr, kCHAPResp,
	kIPCPReq0, kIPCPReqIP, kIPCPReqDNS, kIPCPReqEmpty, kIPCPAck, kIP}

type foreignCase struct {
	Name   string
	Radius string
	Pool   string
	Live   []liveSpec
	Sel    int
	Bit    int
	Dst    int // 0 the AC, 1 broadcast, 2 the owner of the session whose id the frame carries
	Rot    int // rotation of the order of frame types
	Victim int // selOtherOwner: which session is addressed (the other one's owner is the source)
	Random bool
	Seed   int
}

func (f foreignCase) String() string {
	var l []string
	for _, s := range f.Live {
		l = append(l, fmt.Sprintf("%c/%s", peerNames[s.Owner], phaseName[s.Phase]))
	}
	if f.Random {
		return fmt.Sprintf("%s radius=%s pool=%s live=[%s] random-mix", f.Name, f.Radius, f.Pool, strings.Join(l, " "))
	}
	return fmt.Sprintf("%s radius=%s pool=%s live=[%s] source=%s bit=%d dst=%s rot=%d", f.Name, f.Radius, f.Pool, strings.Join(l, " "), selName[f.Sel], f.Bit, [...]string{"ac", "broadcast", "owner"}[f.Dst], f.Rot)
}

// foreignSym builds the frame of kind k carrying tr's id from the selected source.
func foreignSym(k kind, tr *tracked, trs []*tracked, sel, bit, dst int) (sym, bool) {
	s := sym{K: k, ID: tr.id, SID: true}
	switch dst {
	case 0, 1:
		s.Dst = dst
	default:
		s.Dst = 3 + tr.ls.Owner
	}
	switch sel {
	case selAC:
		s.Alt = altAC
	case selBcast:
		s.Alt = altBcast
	case selZero:
		s.Alt = altZero
	case selMcast:
		s.Alt = altMcast
	case selFlip:
		s.Alt = altFlip(tr.ls.Owner, bit)
	case selThirdF:
		s.Src = 2
	case selThirdG:
		s.Src = 3
	case selOtherOwner:
		found := false
		for _, o := range trs {
			if o.ls.Owner != tr.ls.Owner {
				s.Src, found = o.ls.Owner, true
				break
			}
		}
		if !found {
			return s, false
		}
	}
	if s.Alt == 0 && s.Src == tr.ls.Owner {
		return s, false
	}
	return s, true
}

// ownerScript is the intended handshake of a session, used by the random part
// to let an owner go on between the foreign frames.
var ownerScript = []kind{kLCPReq, kLCPAck, kPAPGood, kIPCPReq0, kIPCPAck, kIP, kLCPEcho}

func runForeignCase(t *testing.T, fc foreignCase, ob *obsBuf) (res result) {
	sp := &spec{Name: fc.Name, Radius: fc.Radius, AuthType: "pap", Pool: fc.Pool, DNS: true, Bubble: true}
	synctest.Test(t, func(t *testing.T) {
		c, err := newCase(sp, ob)
		if err != nil {
			res.err = err.Error()
			return
		}
		defer c.stop()
		c.trace = append(c.trace, "case: "+fc.String())
		trs, bad := c.bringUp(fc.Live, false)
		if bad != "" {
			res.err = bad
			return
		}
		w := &wrapWatch{c: c, trs: trs, prefix: "foreign"}
		w.begin()
		for _, tr := range trs {
			if v, ok := w.v0.Sess[tr.key]; ok && v.PoolAddr != "" {
				ob.count("foreign_baseline_sessions_holding_an_address", 1)
			}
		}
		taken := 0
		deliver := func(s sym) bool {
			live := c.step(s, true)
			w.sent(s)
			if live && s.toServer() {
				taken++
			}
			if c.incon != "" {
				res.err = c.incon
				return false
			}
			return true
		}
		if !fc.Random {
			for vi, tr := range trs {
				if fc.Sel == selOtherOwner && vi != fc.Victim%len(trs) {
					continue
				}
				for j := range foreignKinds {
					k := foreignKinds[(j+fc.Rot+vi*7)%len(foreignKinds)]
					s, ok := foreignSym(k, tr, trs, fc.Sel, fc.Bit, fc.Dst)
					if !ok {
						continue
					}
					if !deliver(s) {
						return
					}
				}
			}
		} else {
			rng := run.SubRand("foreign-mix", fc.Seed)
			next := make([]int, len(trs)) // next letter of each owner's own script
			for i, tr := range trs {
				next[i] = []int{0, 2, 3, 5}[tr.ls.Phase]
			}
			for n := 20 + rng.IntN(31); n > 0; n-- {
				vi := rng.IntN(len(trs))
				tr := trs[vi]
				if rng.IntN(10) == 0 {
					// the owner goes on with its own exchange (its session is then not compared across the case)
					k := ownerScript[min(next[vi], len(ownerScript)-1)]
					next[vi]++
					s := sym{K: k, Src: tr.ls.Owner, ID: tr.id}
					ob.count("foreign_mix_owner_frames_in_between", 1)
					if !deliver(s) {
						return
					}
					continue
				}
				sel := rng.IntN(nSel)
				if rng.IntN(3) == 0 {
					sel = selFlip
				}
				dst := []int{0, 0, 0, 1, 1, 2}[rng.IntN(6)]
				k := foreignKinds[rng.IntN(len(foreignKinds))]
				s, ok := foreignSym(k, tr, trs, sel, rng.IntN(48), dst)
				if !ok {
					continue
				}
				switch rng.IntN(12) {
				case 0:
					s.SID = false // PADI/PADR as RFC 2516 wants them: no id in the header
				case 1:
					s.Dst = 2 // a station that takes no part
				case 2:
					s.ID = uint16(1 + rng.IntN(6)) // some id, live or not
				}
				if !deliver(s) {
					return
				}
			}
		}
		ob.count("foreign_frames_on_live_ids_taken_by_the_receive_loop", taken)
		n := w.end("the frames of the foreign sources of this case (" + fc.String() + ")")
		// random mixes are judged per frame; most of them have an owner frame in between,
		// which excludes that owner's session from the comparison across the case
		res.nontriv = taken > 0 && (n > 0 || fc.Random)
		res.trace = c.trace
		if c.incon != "" {
			res.err = c.incon
		}
	})
	progress.Add(1)
	return res
}

// foreignGrid: 16 phase pairs (A, B) x 3 destinations x {7 fixed sources, 48 bit positions}.
func foreignGrid() []foreignCase {
	var out []foreignCase
	n := 0
	add := func(pa, pb, dst, sel, bit int) {
		fc := foreignCase{Sel: sel, Bit: bit, Dst: dst, Rot: n % len(foreignKinds), Victim: n / 3,
			Radius: []string{"none", "scripted"}[n%2], Pool: []string{"10.0.0.0/28", "10.0.0.0/30", "10.0.0.0/29"}[(n/2)%3],
			Live: []liveSpec{{Owner: 0, Phase: pa}, {Owner: 1, Phase: pb}}}
		if n%4 == 3 {
			fc.Live[0], fc.Live[1] = fc.Live[1], fc.Live[0] // B holds the first id
		}
		fc.Name = fmt.Sprintf("foreign-grid/%s/bit=%d/dst=%d/phases=%d%d", selName[sel], bit, dst, pa, pb)
		out = append(out, fc)
		n++
	}
	for pa := 0; pa < 4; pa++ {
		for pb := 0; pb < 4; pb++ {
			for dst := 0; dst < 3; dst++ {
				for sel := 0; sel < selFlip; sel++ {
					add(pa, pb, dst, sel, 0)
				}
				for bit := 0; bit < 48; bit++ {
					add(pa, pb, dst, selFlip, bit)
				}
			}
		}
	}
	return out
}

func foreignRandom(rng *rand.Rand, i int) foreignCase {
	fc := foreignCase{Random: true, Seed: i, Radius: []string{"none", "scripted"}[rng.IntN(2)], Pool: []string{"10.0.0.0/28", "10.0.0.0/30", ""}[rng.IntN(3)]}
	owners := rng.Perm(flipStations)
	for _, o := range owners[:1+rng.IntN(flipStations)] {
		fc.Live = append(fc.Live, liveSpec{Owner: o, Phase: rng.IntN(4)})
	}
	fc.Name = fmt.Sprintf("foreign-random%d", i)
	return fc
}

func TestForeignSources(t *testing.T) {
	grid := foreignGrid()
	nRandom := run.Pick(600, 20000)
	total := len(grid) + nRandom
	results := make([]result, total)
	cases := make([]foreignCase, total)
	parMap(t, total, func(t *testing.T, i int, ob *obsBuf) {
		var fc foreignCase
		if i < len(grid) {
			fc = grid[i]
		} else {
			fc = foreignRandom(run.SubRand("foreign", i-len(grid)), i-len(grid))
		}
		cases[i] = fc
		results[i] = runForeignCase(t, fc, ob)
		if !(i == 11 || i == len(grid)+3) {
			results[i].trace = nil
		}
	})
	sampled := make([]bool, 2)
	for i, r := range results {
		kindOfCase := "foreign_source_grid"
		if i >= len(grid) {
			kindOfCase = "foreign_source_random_mix"
		}
		if r.err != "" {
			run.Inconclusive(cases[i].Name, r.err)
			continue
		}
		run.Eval()
		run.Count("cases_"+kindOfCase, 1)
		run.Count("foreign_source_cases", 1)
		if r.nontriv {
			run.Nontrivial("foreign|" + cases[i].String())
		}
		if r.trace != nil && !sampled[min(i/len(grid), 1)] {
			sampled[min(i/len(grid), 1)] = true
			run.Sample(map[string]any{"kind": kindOfCase, "case": cases[i].String(), "trace": r.trace})
		}
	}
	run.Count("foreign_distinct_source_class_x_frame_type_x_destination_cells", run.DistinctCount("foreign_src_cells"))
	run.Count("foreign_distinct_bit_positions_of_the_owners_mac_flipped", run.DistinctCount("foreign_owner_mac_bit_positions_flipped"))
}
