package c04

// The oracle of C04, written from the property statement:
//
//  (A) a session is reported established, is assigned a client address, or has
//      its IP-layer negotiation acknowledged only after that same session's
//      PAP/CHAP exchange was accepted (by RADIUS when one is configured);
//  (B) frames whose source MAC is not the session's owner never change, advance
//      or terminate that session.
//
// Per session the monitor keeps one permission bit authOK. It is set when a
// PAP/CHAP request carried by a frame from the session's owner MAC and carrying
// the session's id was delivered while the session was live AND the exchange
// was accepted: the harness-owned RADIUS server logged Access-Accept for the
// unique user name of that very frame, or no RADIUS is configured (documented
// accept-all, DESIGN 5b). It is never cleared (the statement says "only after
// ... was accepted", so a later rejected exchange withdraws nothing). The
// monitor grants permission generously and then only flags service without it;
// it never demands that the server provide service.

import (
	"fmt"
	"sort"
	"strings"
	"time"
)

const (
	ruleEstablished = "established-only-after-accepted-auth"
	ruleAddress     = "client-address-only-after-accepted-auth"
	ruleIPCPAck     = "ipcp-acknowledged-only-after-accepted-auth"
	ruleForeign     = "foreign-mac-frame-leaves-session-unchanged"
	ruleTakeover    = "foreign-mac-never-obtains-a-live-sessions-id"
)

type sessMon struct {
	key, owner      string
	id              uint16
	authOK          bool
	lastOwner       string // outcome of the owner's latest non-accepted attempt: "rejected" | "not-completed"
	foreignAccepted bool   // an accepted exchange for this id was carried by another MAC
	rejectedLater   bool
	gone            bool
}

// histClass normalises the authentication history of a session that has no
// accepted exchange of its own.
func (m *sessMon) histClass() string {
	switch {
	case m.foreignAccepted:
		return "accepted-exchange-only-from-foreign-mac"
	case m.lastOwner == "":
		return "no-auth-attempt-by-owner"
	default:
		return "owner-auth-" + m.lastOwner
	}
}

type monitor struct {
	c *caseCtx
	s map[string]*sessMon
	// ids is the monitor's own ownership record, taken from the wire: session id
	// carried by a PADS -> the session created for the station whose PADR it answers.
	ids map[uint16]*sessMon
}

func newMonitor(c *caseCtx) *monitor {
	return &monitor{c: c, s: map[string]*sessMon{}, ids: map[uint16]*sessMon{}}
}

// pads judges the PADS frames answering a PADR from src against the ownership
// record: a session id is handed to a station only while no session of another
// station holds it and is displaced by it (the new station's frames would then
// act on the id of a session it does not own, whose owner is cut off). 'Live'
// is read as: the very session object (unique key) recorded for the id was in
// the table just before the frame; 'displaced' as: it is not there after it.
func (m *monitor) pads(s sym, src string, before, after snapshot, em []outFrame, judge bool) {
	ob := m.c.obs
	for _, o := range em {
		if !o.Disc || o.Code != 0x65 || o.Dst != src {
			continue
		}
		x := o.SID
		prev := m.ids[x]
		prevLive := false
		if prev != nil {
			_, prevLive = before.Sess[prev.key]
		}
		// evidence: where the id counter stood (harness-side prediction, never judged)
		if at := m.c.naive; at >= 0 && judge {
			onLive := false
			if h := m.ids[uint16(at)]; h != nil {
				_, onLive = before.Sess[h.key]
			}
			next1Live := false
			if h := m.ids[1]; h != nil {
				_, next1Live = before.Sess[h.key]
			}
			switch {
			case at == 0 && next1Live:
				ob.count("padr_with_counter_at_reserved_id_0_and_id_1_live", 1)
			case at == 0:
				ob.count("padr_with_counter_at_reserved_id_0_and_id_1_free", 1)
			case onLive:
				ob.count("padr_with_counter_on_a_live_sessions_id", 1)
			}
			if uint16(at) != x {
				ob.count("pads_id_differs_from_counter(skipped reserved/occupied ids)", 1)
			}
			if at == 0 || int(x) < at {
				ob.count("padr_answered_across_the_counter_wrap", 1)
			}
		}
		m.c.naive = int(x + 1)
		if judge {
			ob.count("pads_judged_against_ownership_record", 1)
			if prev != nil && !prevLive {
				ob.count("pads_reusing_the_id_of_a_terminated_session", 1)
			}
		}
		if prevLive {
			_, prevStill := after.Sess[prev.key]
			if prev.owner != src && prevStill {
				// RFC 2516 identifies a session by the id together with the two Ethernet
				// addresses: an implementation that keeps both sessions is not judged
				if judge {
					ob.count("live_id_handed_to_second_station_both_sessions_kept(not judged)", 1)
				}
			} else if prev.owner != src {
				if judge {
					v := before.Sess[prev.key]
					run.Violation("pppoe.Server.handlePADR", ruleTakeover, "padr-answered-with-live-session-id-of-another-station",
						fmt.Sprintf("PADR from %s was answered with PADS carrying session id %d, which the monitor records as handed to %s for a session that was live (%s): frames of %s now address that id", peerOf(src), x, peerOf(prev.owner), v.brief(), peerOf(src)),
						m.witness(s.String(), map[string]any{"session": x, "id_recorded_for": prev.owner, "id_now_handed_to": src, "table_before": before.brief(), "table_after": after.brief()}))
				}
			} else if judge {
				ob.count("own_live_id_reissued_to_same_station(not judged)", 1)
			}
		}
		for k, v := range after.Sess {
			if _, was := before.Sess[k]; !was && v.ID == x {
				m.ids[x] = m.s[k]
			}
		}
	}
}

// decision reports what the RADIUS side did with the exchange named user.
func (m *monitor) decision(user string) string {
	switch m.c.sp.Radius {
	case "none":
		return "no-radius"
	case "scripted":
		switch d := srvScripted.decision(user); d {
		case "accept":
			return "accept"
		case "reject":
			return "radius-reject"
		case "challenge":
			return "radius-error(challenge)"
		default:
			return "radius-not-consulted"
		}
	case "unreachable":
		return "radius-unreachable"
	case "timeout":
		return "radius-timeout"
	}
	return "?"
}

func (m *monitor) witness(now string, extra map[string]any) map[string]any {
	w := map[string]any{
		"config":   map[string]any{"radius": m.c.sp.Radius, "auth_type": m.c.sp.AuthType, "pool": m.c.sp.Pool, "dns": m.c.sp.DNS, "virtual_time": m.c.sp.Bubble, "spec": m.c.sp.Name},
		"stations": "A,B,F,G = client MACs 02:00:00:00:00:a1..a4; 'X>n:kind' = frame of that kind from X carrying session id n; server 02:00:00:00:00:fe",
		"trace":    append([]string(nil), m.c.trace...),
		"at":       now,
	}
	for k, v := range extra {
		w[k] = v
	}
	return w
}

// register notes sessions that appeared. The owner of a session is the station
// whose PADR created it (the source MAC of the frame being processed), not
// whatever the session object says later.
func (m *monitor) register(after snapshot, creator string) {
	for k, v := range after.Sess {
		if m.s[k] == nil {
			owner := creator
			if owner == "" {
				owner = v.Owner
			}
			m.s[k] = &sessMon{key: k, owner: owner, id: v.ID}
			m.c.created++
		}
	}
}

// ownerOf returns the owner the monitor recorded for a session.
func (m *monitor) ownerOf(key string) string { return m.s[key].owner }

func (m *monitor) tick(before, after snapshot, judge bool) {
	m.register(after, "")
	for k := range before.Sess {
		if _, ok := after.Sess[k]; !ok {
			m.s[k].gone = true
			if judge {
				m.c.obs.count("sessions_expired_by_idle_cleanup", 1)
			}
		}
	}
	if judge {
		m.c.obs.count("ticks", 1)
	}
	m.judgeA(sym{K: kTick}, before, after, judge)
}

func (m *monitor) frame(s sym, user string, before, after snapshot, em []outFrame, judge bool) {
	ob := m.c.obs
	src := s.srcMAC().String()
	if s.K == kPADR {
		m.register(after, src)
	} else {
		m.register(after, "")
	}
	if s.K == kPADR {
		m.pads(s, src, before, after, em, judge)
	}
	target, hasTarget := before.byID(s.ID)
	if (s.K == kPADI || s.K == kPADR) && !s.SID {
		hasTarget = false
	}

	// ---- permission
	dec := ""
	if s.K.isAuth() && hasTarget {
		dec = m.decision(user)
		accepted := dec == "accept" || dec == "no-radius"
		if s.Dst >= 2 && dec == "no-radius" {
			// a frame addressed to another station: without a RADIUS log the exchange
			// counts as completed only if the server answered it
			accepted = false
			for _, o := range em {
				if !o.Disc && o.Proto == 0xc023 && o.PCode == 2 && o.SID == s.ID {
					accepted = true
				}
			}
			if !accepted {
				dec = "not-addressed-to-server"
			}
		}
		if s.K == kCHAPResp {
			// a CHAP exchange is only complete when the server said Success
			ok := false
			for _, o := range em {
				if !o.Disc && o.Proto == 0xc223 && o.PCode == 3 && o.SID == s.ID {
					ok = true
				}
			}
			accepted = accepted && ok
			if !accepted {
				dec = "chap-not-completed"
			}
		}
		sm := m.s[target.Key]
		if sm.owner == src {
			if accepted {
				if judge && !sm.authOK {
					ob.count("permissions_granted", 1)
				}
				sm.authOK = true
			} else if !(s.Dst >= 2 && (dec == "radius-not-consulted" || dec == "not-addressed-to-server")) {
				sm.lastOwner = "not-completed"
				if dec == "radius-reject" {
					sm.lastOwner = "rejected"
				}
				if sm.authOK {
					sm.rejectedLater = true
				}
			}
		} else if accepted {
			// history label only: the server completed an exchange somebody else carried
			for _, o := range em {
				if !o.Disc && o.SID == s.ID && ((o.Proto == 0xc023 && o.PCode == 2) || (o.Proto == 0xc223 && o.PCode == 3)) {
					sm.foreignAccepted = true
				}
			}
		}
		if judge {
			ob.count("auth_exchange_"+dec, 1)
		}
	}

	// ---- observations
	role := "discovery"
	if hasTarget {
		if m.ownerOf(target.Key) == src {
			role = "owner"
		} else {
			role = "foreign"
		}
	} else if (s.K != kPADI && s.K != kPADR) || s.SID {
		role = "dead-id"
	}
	if judge {
		ob.count("frames_delivered", 1)
		ob.count("frame_"+kindName[s.K]+"_"+role, 1)
		if s.Dst != 0 {
			ob.count(map[int]string{1: "frames_to_broadcast", 2: "frames_to_other_station"}[min(s.Dst, 2)], 1)
		}
		if role == "foreign" {
			m.noteForeign(s, src, target, before)
		}
		for _, o := range em {
			ob.count("sent_"+o.Name(), 1)
		}
		if hasTarget {
			to := "(removed)"
			if a, ok := after.Sess[target.Key]; ok {
				to = a.State
			}
			au := "noperm"
			if m.s[target.Key].authOK {
				au = "perm"
			}
			ob.distinct("state_frame_pairs", target.State+"|"+au+"|"+kindName[s.K]+"|"+role)
			ob.distinct("transitions", target.State+"|"+kindName[s.K]+"|"+role+"|"+to)
		}
		for _, v := range after.Sess {
			ob.distinct("session_states", v.State)
		}
		ob.distinct("table_shapes", m.c.shape(after))
	}

	// ---- clause (A)
	m.judgeA(s, before, after, judge)
	// IP-layer negotiation acknowledged: IPCP Configure-Ack, or Configure-Nak that hands out an address
	for _, o := range em {
		if o.Disc || o.Proto != 0x8021 {
			continue
		}
		what := ""
		if o.PCode == 2 {
			what = "configure-ack"
		} else if o.PCode == 3 {
			if _, ok := o.Opts[3]; ok {
				what = "configure-nak-with-address"
			}
		}
		if what == "" {
			continue
		}
		v, ok := after.byID(o.SID)
		if !ok {
			v, ok = before.byID(o.SID)
		}
		if !ok {
			continue
		}
		sm := m.s[v.Key]
		if judge {
			ob.count("ipcp_acknowledgements_judged", 1)
		}
		if sm.authOK {
			if judge {
				ob.count("ipcp_acknowledged_with_permission", 1)
			}
			continue
		}
		m.reportA(s, sm, ruleIPCPAck, what+":", judge,
			fmt.Sprintf("the server sent IPCP %s (options %v) for session %d (owner %s) although no PAP/CHAP exchange of that session from its owner was accepted (%s)", what, fmtOpts(o.Opts), v.ID, peerOf(sm.owner), sm.histClass()))
	}

	// ---- clause (B)
	for k, b := range before.Sess {
		owner := m.ownerOf(k)
		if owner == src || !judge {
			continue
		}
		ob.count("foreign_frame_session_pairs_judged", 1)
		if hasTarget && target.Key == k {
			ob.count("foreign_frames_carrying_the_sessions_id", 1)
		}
		a, alive := after.Sess[k]
		if alive && a.Owner != b.Owner {
			// the recorded owner MAC itself was rewritten: judged as its own class, and
			// kept out of the classification of everything else the frame did
			run.Violation("pppoe.Server.receiveLoop", ruleForeign, "owner-mac-overwritten",
				fmt.Sprintf("frame %s from %s rewrote the client MAC recorded in session %d (created by %s): %s -> %s", kindName[s.K], peerOf(src), b.ID, peerOf(owner), peerOf(b.Owner), peerOf(a.Owner)),
				m.witness(s.String(), map[string]any{"session": b.ID, "created_by": owner, "client_mac_before": b.Owner, "client_mac_after": a.Owner}))
		}
		class, diff := diffViews(b, a, alive)
		if class == "" {
			continue
		}
		comp := "pppoe.Server.handleSession"
		if !s.K.isSession() {
			comp = kindHandler[s.K]
		}
		run.Violation(comp, ruleForeign, class,
			fmt.Sprintf("frame %s from %s (not the owner %s of session %d) changed that session: %s", kindName[s.K], peerOf(src), peerOf(owner), b.ID, diff),
			m.witness(s.String(), map[string]any{"diff": diff, "session": b.ID}))
	}
	for k := range before.Sess {
		if _, ok := after.Sess[k]; !ok {
			m.s[k].gone = true
		}
	}
}

func fmtOpts(o map[byte][]byte) string {
	var ks []int
	for k := range o {
		ks = append(ks, int(k))
	}
	sort.Ints(ks)
	var p []string
	for _, k := range ks {
		p = append(p, fmt.Sprintf("%d=%x", k, o[byte(k)]))
	}
	return "{" + strings.Join(p, " ") + "}"
}

// judgeA checks the state part of clause (A) on every live session. A
// violation is reported at the step at which the condition becomes true, so
// that the component is the handler of the frame that caused it.
func (m *monitor) judgeA(s sym, before, after snapshot, judge bool) {
	for k, v := range after.Sess {
		sm := m.s[k]
		b := before.Sess[k] // zero value for a session that did not exist
		if judge {
			m.c.obs.count("session_snapshots_judged", 1)
		}
		est := v.Established || v.State == "Established"
		addr := v.ClientIP != "" || v.PoolAddr != ""
		if sm.authOK {
			if judge && est {
				m.c.obs.count("established_with_permission_observed", 1)
				if sm.rejectedLater {
					m.c.obs.count("established_after_a_later_rejected_exchange(not judged)", 1)
				}
			}
			if judge && addr {
				m.c.obs.count("address_with_permission_observed", 1)
			}
			continue
		}
		if est && !(b.Established || b.State == "Established") {
			m.reportA(s, sm, ruleEstablished, "", judge,
				fmt.Sprintf("session %d (owner %s) is reported Established although no PAP/CHAP exchange of that session from its owner was accepted (%s)", v.ID, peerOf(sm.owner), sm.histClass()))
		}
		if addr && !(b.ClientIP != "" || b.PoolAddr != "") {
			m.reportA(s, sm, ruleAddress, "", judge,
				fmt.Sprintf("session %d (owner %s) holds client address %q (pool entry %q) although no PAP/CHAP exchange of that session from its owner was accepted (%s)", v.ID, peerOf(sm.owner), v.ClientIP, v.PoolAddr, sm.histClass()))
		}
	}
}

// reportA records one violation of clause (A).
func (m *monitor) reportA(s sym, sm *sessMon, rule, prefix string, judge bool, desc string) {
	if !judge {
		return
	}
	run.Violation(kindHandler[s.K], rule, prefix+sm.histClass(), desc+" after "+s.String(), m.witness(s.String(), map[string]any{"session": sm.id}))
}

// diffViews classifies what a frame did to a session (byte/packet counters are
// excluded: the property does not mention them).
func diffViews(b, a sessView, alive bool) (class, diff string) {
	if !alive {
		return "terminated", "session removed from the table"
	}
	var d []string
	add := func(name string, x, y any) {
		if fmt.Sprint(x) != fmt.Sprint(y) {
			d = append(d, fmt.Sprintf("%s %v -> %v", name, x, y))
		}
	}
	add("State", b.State, a.State)
	add("Authenticated", b.Authenticated, a.Authenticated)
	add("ClientIP", b.ClientIP, a.ClientIP)
	add("PoolAddr", b.PoolAddr, a.PoolAddr)
	add("Username", b.Username != "", a.Username != "")
	add("AuthMethod", b.AuthMethod, a.AuthMethod)
	add("Class", b.Class, a.Class)
	add("ServerIP", b.ServerIP, a.ServerIP)
	add("PeerMRU", b.PeerMRU, a.PeerMRU)
	add("PeerMagic", b.PeerMagic, a.PeerMagic)
	add("MRU", b.MRU, a.MRU)
	add("LCPIdentifier", b.LCPIdent, a.LCPIdent)
	add("ServiceName", b.ServiceName, a.ServiceName)
	add("HostUniq", b.HostUniq, a.HostUniq)
	add("ID", b.ID, a.ID)
	if b.LastActivity != a.LastActivity {
		d = append(d, fmt.Sprintf("LastActivity +%s", time.Duration(a.LastActivity-b.LastActivity)))
	}
	if len(d) == 0 {
		return "", ""
	}
	diff = strings.Join(d, ", ")
	switch {
	case b.Authenticated != a.Authenticated || b.ClientIP != a.ClientIP || b.PoolAddr != a.PoolAddr:
		class = "authentication-or-address-changed"
	case b.State != a.State:
		class = "state-changed"
	case b.LastActivity != a.LastActivity && len(d) == 1:
		class = "idle-timer-refreshed"
	default:
		class = "negotiation-parameters-changed"
	}
	return class, diff
}

// shape is a coarse view of the table (evidence only).
func (c *caseCtx) shape(sn snapshot) string {
	var p []string
	for _, v := range sn.sorted() {
		p = append(p, fmt.Sprintf("%s/%s/%v/%v", peerOf(c.mon.ownerOf(v.Key)), v.State, v.Authenticated, v.ClientIP != ""))
	}
	return strings.Join(p, ",")
}

// fingerprint identifies the joint state of server and monitor for the
// breadth-first search: everything that can influence later behaviour or later
// verdicts, nothing random (magic numbers, cookies, RADIUS session ids).
func (c *caseCtx) fingerprint() string {
	sn := c.snapshot()
	now := time.Now()
	var p []string
	p = append(p, fmt.Sprintf("t%d n%d", c.nTicks%3, c.created))
	live := map[string]bool{}
	for _, v := range sn.sorted() {
		live[v.Key] = true
		sm := c.mon.s[v.Key]
		age := int64(now.Sub(time.Unix(0, v.LastActivity)) / time.Second)
		p = append(p, fmt.Sprintf("%d/%s/%s/%v/%s/%s/a%d/%v/%s", v.ID, peerOf(sm.owner), v.State, v.Authenticated, v.ClientIP, v.PoolAddr,
			age, sm.authOK, sm.histClass()))
	}
	p = append(p, "free:"+strings.Join(sn.PoolFree, ","))
	var leaked []string
	for k, ip := range sn.PoolAlloc {
		if !live[k] {
			leaked = append(leaked, ip)
		}
	}
	sort.Strings(leaked)
	p = append(p, "held-by-dead:"+strings.Join(leaked, ","))
	return strings.Join(p, ";")
}
