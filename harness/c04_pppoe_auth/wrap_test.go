package c04

// Session-id counter near and across its 16-bit wrap while sessions with low
// (and the highest) ids are alive.
//
// The session table is keyed by the 16-bit session id a PADR is answered with.
// After 65535 sessions were created over the server's life time the counter
// returns to the ids of sessions that are still up. The clause judged here is
// the second sentence of the property: frames from a MAC that does not own a
// session never change, advance or terminate it - a PADR is such a frame for
// every session of every other station.
//
//   - per frame (monitor.frame, the clause every case is judged with): the
//     owner's session object, state, Authenticated flag, address ... are the same
//     before and after each foreign PADR, and a PADS never hands a station the id
//     of another station's live session while displacing it (monitor.pads, judged
//     by the monitor's own PADR-source -> PADS-id record);
//   - across the burst: the session objects recorded before the foreign frames
//     are still in the table and unchanged after them;
//   - differentially: what the server answers to the owner's LCP Echo-Request
//     and IPCP Configure-Request is the same before and after the foreign frames
//     (nothing but frames of other stations lies in between).
//
// The counter is placed with the hook pppoe.VerifC09SetNextSessionID (scenarios
// below) or driven round by real PADR/PADT churn of a third station (TestCounterChurn).

import (
	"fmt"
	"math/rand/v2"
	"strings"
	"testing"
	"testing/synctest"
)

type liveSpec struct {
	ID    uint16 // id the session is to hold (the counter is placed there before its PADR)
	Owner int    // station
	Phase int    // 0 after PADS (LCP), 1 LCP acknowledged (authentication), 2 authenticated (IPCP), 3 IPCP acknowledged (established)
}

var phaseName = [...]string{"lcp", "authentication", "ipcp", "established"}

type wrapCase struct {
	Name    string
	Radius  string
	Pool    string
	Live    []liveSpec
	Counter uint16
	Burst   []int // source stations of the PADRs sent after the counter was placed
	Post    int   // what the stations of the burst do with the ids they were handed: 0 nothing, 1 PADT, 2 walk their own handshake, 3 LCP Terminate-Request
	Echo    bool  // owners keep sending LCP Echo-Requests between the PADRs
}

func (w wrapCase) String() string {
	var l []string
	for _, s := range w.Live {
		l = append(l, fmt.Sprintf("%c@%d/%s", peerNames[s.Owner], s.ID, phaseName[s.Phase]))
	}
	var b []byte
	for _, s := range w.Burst {
		b = append(b, peerNames[s])
	}
	return fmt.Sprintf("%s radius=%s pool=%s live=[%s] counter=%d padrs=%s post=%d echo=%v", w.Name, w.Radius, w.Pool, strings.Join(l, " "), w.Counter, b, w.Post, w.Echo)
}

// tracked is one session the harness brought up and watches.
type tracked struct {
	ls  liveSpec
	id  uint16 // id the PADS carried
	key string // unique key of the session object
}

// padsID returns the session id of the PADS the server sent to station src in
// answer to the latest frame.
func (c *caseCtx) padsID(src int) (uint16, bool) {
	for _, o := range c.lastEm {
		if o.Disc && o.Code == 0x65 && o.Dst == peerMACs[src].String() {
			return o.SID, true
		}
	}
	return 0, false
}

// answers is the normalised list of frames the server sent in answer to the
// latest frame (identifiers and magic numbers left out).
func (c *caseCtx) answers() []string {
	var out []string
	for _, o := range c.lastEm {
		a := fmt.Sprintf("%s(sid=%d)->%s", o.Name(), o.SID, peerOf(o.Dst))
		if o.Proto == 0x8021 {
			a += fmtOpts(o.Opts)
		}
		out = append(out, a)
	}
	return out
}

// probe sends the owner's LCP Echo-Request and IPCP Configure-Request on its own
// session and returns what came back.
func (c *caseCtx) probe(tr *tracked) (echo, ipcp []string) {
	c.step(sym{K: kLCPEcho, Src: tr.ls.Owner, ID: tr.id}, true)
	echo = c.answers()
	c.step(sym{K: kIPCPReqDNS, Src: tr.ls.Owner, ID: tr.id}, true)
	ipcp = c.answers()
	return
}

// bringUp creates the sessions of the case at their ids and walks each one to its phase.
func (c *caseCtx) bringUp(live []liveSpec, place bool) ([]*tracked, string) {
	var trs []*tracked
	for _, ls := range live {
		if place {
			c.placeCounter(ls.ID)
		}
		c.step(sym{K: kPADR, Src: ls.Owner}, true)
		id, ok := c.padsID(ls.Owner)
		if !ok || c.mon.ids[id] == nil {
			return nil, fmt.Sprintf("PADR of %c was not answered with a PADS", peerNames[ls.Owner])
		}
		if place && id != ls.ID {
			c.obs.count("wrap_placement_answered_with_another_id", 1)
		}
		trs = append(trs, &tracked{ls: ls, id: id, key: c.mon.ids[id].key})
	}
	for _, tr := range trs {
		var script []kind
		switch tr.ls.Phase {
		case 1:
			script = []kind{kLCPReq, kLCPAck}
		case 2:
			script = []kind{kLCPReq, kLCPAck, kPAPGood}
		case 3:
			script = []kind{kLCPReq, kLCPAck, kPAPGood, kIPCPReq0, kIPCPAck}
		}
		for _, k := range script {
			c.step(sym{K: k, Src: tr.ls.Owner, ID: tr.id}, true)
			if c.incon != "" {
				return nil, c.incon
			}
		}
	}
	return trs, ""
}

// coreView is the part of a session view the cumulative comparison reads (the
// idle timer is left out: the owner's own probes refresh it).
func coreView(v sessView) sessView {
	v.LastActivity, v.LCPIdent, v.BytesIn, v.BytesOut = 0, 0, 0, 0
	return v
}

type wrapWatch struct {
	c        *caseCtx
	trs      []*tracked
	v0       snapshot
	echo0    map[*tracked][]string
	ipcp0    map[*tracked][]string
	foreign  map[string]bool // source addresses that sent anything since the baseline
	kinds    map[kind]bool
	prefix   string
	baseline bool
}

// begin takes the baseline: owner probes, then the table.
func (w *wrapWatch) begin() {
	w.echo0, w.ipcp0 = map[*tracked][]string{}, map[*tracked][]string{}
	for _, tr := range w.trs {
		w.echo0[tr], w.ipcp0[tr] = w.c.probe(tr)
	}
	w.v0 = w.c.snapshot()
	w.foreign, w.kinds = map[string]bool{}, map[kind]bool{}
	w.baseline = true
}

func (w *wrapWatch) sent(s sym) { w.foreign[s.srcMAC().String()] = true; w.kinds[s.K] = true }

// end judges every tracked session none of whose owner's frames (other than the
// probes, which never change a session) lie between begin and end.
func (w *wrapWatch) end(desc string) (compared int) {
	c, ob := w.c, w.c.obs
	v1 := c.snapshot()
	comp := "pppoe.Server.receiveLoop"
	if len(w.kinds) == 1 && w.kinds[kPADR] {
		comp = "pppoe.Server.handlePADR"
	}
	for _, tr := range w.trs {
		b, was := w.v0.Sess[tr.key]
		if !was {
			ob.count(w.prefix+"_tracked_session_not_live_at_baseline(not judged)", 1)
			continue
		}
		if w.foreign[peerMACs[tr.ls.Owner].String()] {
			ob.count(w.prefix+"_tracked_session_whose_owner_also_sent_frames(not judged across the burst)", 1)
			continue
		}
		compared++
		ob.count(w.prefix+"_owner_sessions_compared_across_foreign_frames", 1)
		ob.distinct(w.prefix+"_victims", fmt.Sprintf("id=%d/%s", tr.id, b.State))
		a, alive := v1.Sess[tr.key]
		class, diff := diffViews(coreView(b), coreView(a), alive)
		if class != "" {
			run.Violation(comp, ruleForeign, class,
				fmt.Sprintf("after %s, none of them from %c, session %d of %c (%s) is no longer what it was: %s", desc, peerNames[tr.ls.Owner], tr.id, peerNames[tr.ls.Owner], b.brief(), diff),
				c.mon.witness("end of foreign frames", map[string]any{"session": tr.id, "diff": diff, "table_before": w.v0.brief(), "table_after": v1.brief()}))
		} else {
			ob.count(w.prefix+"_owner_sessions_unchanged_across_foreign_frames", 1)
		}
		// differential: the owner's own exchanges are answered as before
		e1, i1 := c.probe(tr)
		ob.count(w.prefix+"_owner_probe_pairs_compared", 2)
		if len(e1) > 0 {
			ob.count(w.prefix+"_owner_echo_answered_after_foreign_frames", 1)
		}
		if len(i1) > 0 {
			ob.count(w.prefix+"_owner_ipcp_answered_after_foreign_frames", 1)
		}
		for _, p := range []struct {
			what     string
			was, now []string
		}{{"LCP Echo-Request", w.echo0[tr], e1}, {"IPCP Configure-Request", w.ipcp0[tr], i1}} {
			if strings.Join(p.was, " ") == strings.Join(p.now, " ") {
				continue
			}
			cl := "owner-exchange-answered-differently"
			if len(p.now) == 0 {
				cl = "owner-exchange-no-longer-answered"
			}
			run.Violation(comp, ruleForeign, cl,
				fmt.Sprintf("the %s of %c on its session %d was answered with %v before and with %v after %s (no frame of %c in between)", p.what, peerNames[tr.ls.Owner], tr.id, p.was, p.now, desc, peerNames[tr.ls.Owner]),
				c.mon.witness("owner probe after foreign frames", map[string]any{"session": tr.id, "exchange": p.what, "answers_before": p.was, "answers_after": p.now}))
		}
	}
	return compared
}

// postActions: the stations of the burst use the ids they were handed.
func (c *caseCtx) postActions(w *wrapWatch, issued [][2]int, post int) {
	var script []kind
	switch post {
	case 1:
		script = []kind{kPADT}
	case 2:
		script = []kind{kLCPReq, kLCPAck, kPAPGood, kIPCPReq0, kIPCPAck, kIP}
	case 3:
		script = []kind{kLCPTerm}
	}
	for _, is := range issued {
		for _, k := range script {
			s := sym{K: k, Src: is[0], ID: uint16(is[1])}
			c.step(s, true)
			w.sent(s)
		}
	}
}

func runWrapCase(t *testing.T, wc wrapCase, ob *obsBuf) (res result) {
	sp := &spec{Name: wc.Name, Radius: wc.Radius, AuthType: "pap", Pool: wc.Pool, DNS: true, Bubble: true}
	synctest.Test(t, func(t *testing.T) {
		c, err := newCase(sp, ob)
		if err != nil {
			res.err = err.Error()
			return
		}
		defer c.stop()
		c.trace = append(c.trace, "case: "+wc.String())
		trs, bad := c.bringUp(wc.Live, true)
		if bad != "" {
			res.err = bad
			return
		}
		w := &wrapWatch{c: c, trs: trs, prefix: "wrap"}
		w.begin()
		c.placeCounter(wc.Counter)
		var issued [][2]int
		answered := 0
		for i, src := range wc.Burst {
			// where the counter stands relative to the watched sessions (evidence)
			at := uint16(c.naive)
			for _, tr := range trs {
				if v, ok := w.v0.Sess[tr.key]; ok {
					d := int(int16(tr.id - at)) // signed distance from the counter to the id
					if d >= -1 && d <= 6 {
						ob.distinct("wrap_cells", fmt.Sprintf("victim=%d/%s/counter=%d", tr.id, v.State, at))
					}
				}
			}
			if at >= 65533 || at <= 2 {
				ob.count(fmt.Sprintf("wrap_foreign_padrs_with_counter_at_%d", at), 1)
			} else {
				ob.count("wrap_foreign_padrs_with_counter_elsewhere", 1)
			}
			s := sym{K: kPADR, Src: src}
			c.step(s, true)
			w.sent(s)
			if id, ok := c.padsID(src); ok {
				issued = append(issued, [2]int{src, int(id)})
				answered++
			}
			if wc.Echo {
				tr := trs[i%len(trs)]
				es := sym{K: kLCPEcho, Src: tr.ls.Owner, ID: tr.id}
				c.step(es, true)
				w.sent(es) // sessions of that owner are then not judged across the burst (per frame they still are)
			}
			if c.incon != "" {
				res.err = c.incon
				return
			}
		}
		ob.count("wrap_foreign_padrs_answered", answered)
		c.postActions(w, issued, wc.Post)
		n := w.end(fmt.Sprintf("%d PADRs (and what their senders did with the ids they got) with the id counter starting at %d", len(wc.Burst), wc.Counter))
		res.nontriv = answered > 0 && n > 0
		res.trace = c.trace
		if c.incon != "" {
			res.err = c.incon
		}
	})
	progress.Add(1)
	return res
}

// wrapGrid: every non-empty subset of live ids {1, 2, 65535} x 8 phase
// assignments x counter values 65533..2 x 5 bursts.
func wrapGrid() []wrapCase {
	ids := []uint16{1, 2, 65535}
	counters := []uint16{65533, 65534, 65535, 0, 1, 2}
	bursts := [][]int{{2}, {2, 3}, {3, 3, 3}, {3, 1, 2, 3}, {2, 2, 3, 3, 2, 3}}
	var out []wrapCase
	n := 0
	for mask := 1; mask < 8; mask++ {
		for ph := 0; ph < 8; ph++ {
			for _, cnt := range counters {
				for bi, b := range bursts {
					wc := wrapCase{Counter: cnt, Burst: b, Radius: []string{"none", "scripted"}[n%2], Pool: []string{"10.0.0.0/28", "10.0.0.0/30", "10.0.0.0/28", ""}[(n/2)%4]}
					k := 0
					for j, id := range ids {
						if mask&(1<<j) == 0 {
							continue
						}
						phase := ph // 0..3: all in the same phase
						if ph >= 4 {
							phase = (ph + j) % 4 // mixed
						}
						// owners A and B alternate; B also appears in one burst, where its own sessions are not judged across the burst
						wc.Live = append(wc.Live, liveSpec{ID: id, Owner: (k + n) % 2, Phase: phase})
						k++
					}
					wc.Post = (n / 3) % 4
					wc.Echo = n%5 == 0
					wc.Name = fmt.Sprintf("wrap-grid/live=%d/phases=%d/counter=%d/burst=%d", mask, ph, cnt, bi)
					out = append(out, wc)
					n++
				}
			}
		}
	}
	return out
}

// wrapRandom: live sessions at ids around both ends of the id space in random
// phases, counter anywhere from 65528 to 6, up to 12 PADRs of stations F, G and
// the owners themselves.
func wrapRandom(rng *rand.Rand, i int) wrapCase {
	pick := func() uint16 {
		switch rng.IntN(6) {
		case 0:
			return uint16(65528 + rng.IntN(8))
		case 1:
			return uint16(1 + rng.IntN(6))
		default:
			return []uint16{1, 2, 65535, 3, 65534}[rng.IntN(5)]
		}
	}
	wc := wrapCase{Radius: []string{"none", "scripted"}[rng.IntN(2)], Pool: []string{"10.0.0.0/28", "10.0.0.0/30", ""}[rng.IntN(3)],
		Counter: uint16(65528 + rng.IntN(15)), Post: rng.IntN(4), Echo: rng.IntN(3) == 0}
	used := map[uint16]bool{}
	for n := 1 + rng.IntN(4); len(wc.Live) < n; {
		id := pick()
		if used[id] {
			continue
		}
		used[id] = true
		wc.Live = append(wc.Live, liveSpec{ID: id, Owner: rng.IntN(2), Phase: rng.IntN(4)})
	}
	for n := 1 + rng.IntN(12); len(wc.Burst) < n; {
		src := 2 + rng.IntN(2)
		if rng.IntN(6) == 0 {
			src = rng.IntN(4)
		}
		wc.Burst = append(wc.Burst, src)
	}
	wc.Name = fmt.Sprintf("wrap-random%d", i)
	return wc
}

func TestCounterWrap(t *testing.T) {
	grid := wrapGrid()
	nRandom := run.Pick(1000, 30000)
	total := len(grid) + nRandom
	sampled := make([]bool, 2)
	results := make([]result, total)
	cases := make([]wrapCase, total)
	parMap(t, total, func(t *testing.T, i int, ob *obsBuf) {
		var wc wrapCase
		if i < len(grid) {
			wc = grid[i]
		} else {
			wc = wrapRandom(run.SubRand("wrap", i-len(grid)), i-len(grid))
		}
		cases[i] = wc
		results[i] = runWrapCase(t, wc, ob)
		if !(i == 7 || i == len(grid)+3) {
			results[i].trace = nil
		}
	})
	for i, r := range results {
		kindOfCase := "counter_wrap_grid"
		if i >= len(grid) {
			kindOfCase = "counter_wrap_random"
		}
		if r.err != "" {
			run.Inconclusive(cases[i].Name, r.err)
			continue
		}
		run.Eval()
		run.Count("cases_"+kindOfCase, 1)
		run.Count("wrap_cases", 1)
		if r.nontriv {
			run.Nontrivial("wrap|" + cases[i].String())
		}
		if r.trace != nil && !sampled[min(i/len(grid), 1)] {
			sampled[min(i/len(grid), 1)] = true
			run.Sample(map[string]any{"kind": kindOfCase, "case": cases[i].String(), "trace": r.trace})
		}
	}
	run.Count("wrap_distinct_victim_id_x_state_x_counter_cells", run.DistinctCount("wrap_cells"))
}

// TestCounterChurn drives the counter once round without the hook: A and B hold
// sessions 1 and 2 (and F, in some variants, the last id 65535) while station G
// opens and closes one session after the other; owners send an LCP
// Echo-Request now and then (their sessions would otherwise idle out, which is
// legitimate). Every frame is judged like any other; the watch spans the whole
// churn and the PADRs after the wrap.
func TestCounterChurn(t *testing.T) {
	n := run.Pick(2, 8)
	results := make([]result, n)
	names := make([]string, n)
	parMap(t, n, func(t *testing.T, i int, ob *obsBuf) {
		rng := run.SubRand("churn", i)
		sp := &spec{Name: fmt.Sprintf("churn%d", i), Radius: []string{"none", "scripted"}[i%2], AuthType: "pap", Pool: "10.0.0.0/28", DNS: true, Bubble: true}
		live := []liveSpec{{Owner: 0, Phase: 3 - i%4}, {Owner: 1, Phase: (i + 2) % 4}}
		holdLast := i%2 == 1 // F keeps the highest id
		lastPhase := rng.IntN(4)
		after := 3 + rng.IntN(6)
		names[i] = fmt.Sprintf("%s radius=%s A@1/%s B@2/%s F-holds-65535=%v(%s) padrs-after-wrap=%d", sp.Name, sp.Radius, phaseName[live[0].Phase], phaseName[live[1].Phase], holdLast, phaseName[lastPhase], after)
		res := &results[i]
		synctest.Test(t, func(t *testing.T) {
			c, err := newCase(sp, ob)
			if err != nil {
				res.err = err.Error()
				return
			}
			defer c.stop()
			c.trace = append(c.trace, "case: "+names[i])
			trs, bad := c.bringUp(live, false)
			if bad != "" {
				res.err = bad
				return
			}
			w := &wrapWatch{c: c, trs: trs, prefix: "churn"}
			w.begin()
			trim := func() {
				if len(c.trace) > 600 {
					c.trace = append(append(append([]string(nil), c.trace[:40]...), "[... trace shortened ...]"), c.trace[len(c.trace)-300:]...)
				}
			}
			const churner = 3 // G
			pairs, wrapped, afterWrap := 0, false, 0
			var last uint16
			for guard := 0; guard < 70000 && afterWrap < after && c.incon == ""; guard++ {
				src := churner
				if wrapped && afterWrap%2 == 1 {
					src = 2
				}
				if holdLast && last == 65534 && !wrapped {
					src = 2 // F takes the last id of the round and keeps it
				}
				s := sym{K: kPADR, Src: src}
				c.step(s, true)
				w.sent(s)
				id, ok := c.padsID(src)
				if !ok {
					res.err = fmt.Sprintf("PADR %d of the churn was not answered", pairs)
					return
				}
				if id < last {
					wrapped = true
				}
				if wrapped {
					afterWrap++
					ob.count("churn_padrs_answered_after_the_counter_wrapped", 1)
				}
				keep := holdLast && id == 65535
				if keep {
					var script []kind
					switch lastPhase {
					case 1:
						script = []kind{kLCPAck}
					case 2:
						script = []kind{kLCPAck, kPAPGood}
					case 3:
						script = []kind{kLCPAck, kPAPGood, kIPCPReq0, kIPCPAck}
					}
					for _, k := range script {
						ps := sym{K: k, Src: src, ID: id}
						c.step(ps, true)
						w.sent(ps)
					}
					ob.count("churn_last_id_65535_kept_live", 1)
				} else if !wrapped || afterWrap%3 != 0 {
					ps := sym{K: kPADT, Src: src, ID: id}
					c.step(ps, true)
					w.sent(ps)
				}
				last = id
				pairs++
				if pairs%4096 == 0 {
					for _, tr := range trs { // keep-alive of the owners
						c.step(sym{K: kLCPEcho, Src: tr.ls.Owner, ID: tr.id}, true)
					}
					progress.Add(1)
				}
				trim()
			}
			ob.count("churn_sessions_opened_by_third_stations", pairs)
			if !wrapped {
				res.err = "the id counter did not wrap within 70000 PADRs"
				return
			}
			cmp := w.end(fmt.Sprintf("%d sessions opened and closed by other stations, taking the id counter once round", pairs))
			res.nontriv = cmp > 0
			trim()
			res.trace = c.trace
			if c.incon != "" {
				res.err = c.incon
			}
		})
		progress.Add(1)
	})
	for i, r := range results {
		if r.err != "" {
			run.Inconclusive(names[i], r.err)
			continue
		}
		run.Eval()
		run.Count("cases_counter_churn", 1)
		if r.nontriv {
			run.Nontrivial("churn|" + names[i])
		}
		if i == 0 {
			run.Sample(map[string]any{"kind": "counter churn (no hook)", "case": names[i], "trace": r.trace})
		}
	}
}
