package c04

// Composed PPP link: the package's own parts - pppoe.Authenticator (auth.go),
// pppoe.IPCPStateMachine (ipcp.go) and pppoe.IPPool - assembled per session the
// way RFC 1661 orders the phases and the way the types document it: the IPCP
// automaton gets its Up event only from the authenticator's completion callback
// when that callback reports success. Everything else the peer sends is
// delivered when the peer sends it: IPCP packets reach the automaton before,
// after and without an accepted PAP/CHAP exchange, and after a refused one.
//
// The property clause judged here is "a session is assigned a client address,
// or has its IP-layer negotiation acknowledged, only after that same session's
// PAP/CHAP exchange was accepted (by RADIUS when one is configured)". While the
// monitor has not seen an accepted exchange of a link:
//   - the pool hands no address out under that link's session id (observed at
//     the IPPoolAllocator interface, through which the automaton reaches the
//     real pool),
//   - the link's automaton records no peer address (GetNegotiatedOptions),
//   - no IPCP Configure-Nak suggests and no Configure-Ack acknowledges an
//     IP-Address option to the peer,
//   - the automaton is not Opened.
// Permission is sticky (an accepted exchange is never withdrawn), and with no
// RADIUS client it is granted by any delivered exchange (accept-all as
// documented), so the monitor is never stricter than the statement.
//
// Address-less replies (Configure-Reject, Configure-Ack of an empty or DNS-only
// request, DNS suggestions) to a link without accepted authentication are
// counted, not judged: they give the peer no address and the automaton stays
// where it is.

import (
	"fmt"
	"math/rand/v2"
	"net"
	"strings"
	"sync"
	"testing"
	"testing/synctest"
	"time"

	"github.com/codelaboratoryltd/bng/pkg/pppoe"
	"github.com/codelaboratoryltd/bng/pkg/radius"
	"go.uber.org/zap"
)

const (
	ruleLinkAddress = "address-assigned-only-after-accepted-auth"
	ruleLinkIPCP    = "ipcp-acknowledged-only-after-accepted-auth"
	protoIPCP       = 0x8021
	protoPAP        = 0xc023
	protoCHAP       = 0xc223
)

// recPool is the observation point on the IPPoolAllocator interface: it has no
// behaviour of its own, every call goes to the real pool.
type recPool struct {
	inner *pppoe.IPPool
	mu    sync.Mutex
	got   map[string][]string // session id -> addresses handed out since the last take
	calls int
}

func (p *recPool) Allocate(sid string) net.IP {
	ip := p.inner.Allocate(sid)
	p.mu.Lock()
	p.calls++
	if ip != nil {
		p.got[sid] = append(p.got[sid], ip.String())
	}
	p.mu.Unlock()
	return ip
}

func (p *recPool) Release(sid string) { p.inner.Release(sid) }

func (p *recPool) take(sid string) []string {
	p.mu.Lock()
	defer p.mu.Unlock()
	g := p.got[sid]
	delete(p.got, sid)
	return g
}

type linkPkt struct {
	proto uint16
	code  byte
	id    byte
	data  []byte
}

type cLink struct {
	name   string
	sid    string
	chap   bool
	openAt int // 0 at creation, 1 in the success callback, 2 only by an administrative event
	onFail int // what the session does on a refused exchange: 0 nothing, 1 Close, 2 Down
	auth   *pppoe.Authenticator
	ipcp   *pppoe.IPCPStateMachine

	mu   sync.Mutex
	sent []linkPkt

	challengeID byte
	lastReqID   byte
	lastReqData []byte
	offered     net.IP // last address this link was offered (what a real peer asks for next)

	// monitor
	authOK    bool
	attempted bool
	refused   bool

	flaggedNeg, flaggedOpen bool
}

func (l *cLink) takeSent() []linkPkt {
	l.mu.Lock()
	defer l.mu.Unlock()
	s := l.sent
	l.sent = nil
	return s
}

func (l *cLink) authClass() string {
	switch {
	case !l.attempted:
		return "no-auth-attempt"
	case l.refused:
		return "auth-rejected"
	}
	return "auth-not-completed"
}

type ipcpOpt struct {
	t byte
	d []byte
}

func parseCPOpts(b []byte) []ipcpOpt {
	var o []ipcpOpt
	for len(b) >= 2 {
		n := int(b[1])
		if n < 2 || n > len(b) {
			break
		}
		o = append(o, ipcpOpt{b[0], b[2:n]})
		b = b[n:]
	}
	return o
}

var cpCodeName = map[byte]string{1: "ConfReq", 2: "ConfAck", 3: "ConfNak", 4: "ConfRej", 5: "TermReq", 6: "TermAck", 7: "CodeRej"}

func (p linkPkt) String() string {
	pn := map[uint16]string{protoIPCP: "IPCP", protoPAP: "PAP", protoCHAP: "CHAP"}[p.proto]
	if p.proto != protoIPCP {
		return fmt.Sprintf("%s(code %d)", pn, p.code)
	}
	s := "IPCP-" + cpCodeName[p.code]
	if p.code >= 1 && p.code <= 4 {
		var os []string
		for _, o := range parseCPOpts(p.data) {
			if len(o.d) == 4 {
				os = append(os, fmt.Sprintf("%d=%v", o.t, net.IP(o.d)))
			} else {
				os = append(os, fmt.Sprintf("%d=%x", o.t, o.d))
			}
		}
		s += "{" + strings.Join(os, ",") + "}"
	}
	return s
}

type compCase struct {
	t      *testing.T
	ob     *obsBuf
	rng    *rand.Rand
	mode   string
	nonce  int64
	pool   *recPool
	usable []net.IP
	links  []*cLink
	trace  []string
	shape  []string
	reach  bool // an address request reached a pool-backed link without accepted authentication and was judged
	viol   bool
}

func TestComposedLink(t *testing.T) {
	n := run.Pick(3000, 40000)
	parMap(t, n, func(t *testing.T, i int, ob *obsBuf) {
		rng := run.SubRand("composed-link", i)
		c := &compCase{t: t, ob: ob, rng: rng, nonce: userNonce.Add(1)}
		c.mode = []string{"none", "scripted", "scripted", "scripted", "unreachable"}[rng.IntN(5)]
		if c.mode == "unreachable" && closedPort == 0 {
			c.mode = "scripted"
		}
		ok := true
		synctest.Test(t, func(t *testing.T) { ok = c.run(i) })
		progress.Add(1)
		if !ok {
			return
		}
		run.Eval()
		run.Count("cases_composed_link", 1)
		ob.count("composed_cases_radius_"+c.mode, 1)
		if c.reach {
			run.Nontrivial("composed|" + c.mode + "|" + strings.Join(c.shape, ";"))
		}
		if i == 5 {
			run.Sample(map[string]any{"kind": "composed-link", "radius": c.mode, "trace": c.trace})
		}
	})
}

func (c *compCase) run(idx int) bool {
	rng := c.rng
	var rc *radius.Client
	if c.mode != "none" {
		port := srvScripted.port
		if c.mode == "unreachable" {
			port = closedPort
		}
		var err error
		rc, err = radius.NewClient(radius.ClientConfig{Servers: []radius.ServerConfig{{Host: "127.0.0.1", Port: port, Secret: radiusSecret}},
			NASID: "c04-nas", Timeout: 5 * time.Second, Retries: 1, RateLimit: radius.RateLimitConfig{RequestsPerSecond: 1e6, BurstSize: 100000}}, zap.NewNop())
		if err != nil {
			run.Inconclusive(fmt.Sprintf("composed-%d", idx), "radius client: "+err.Error())
			return false
		}
	}
	// pool geometry: 1, 5 or 13 usable addresses behind gateway .1
	bits := []int{30, 29, 29, 28}[rng.IntN(4)]
	inner, err := pppoe.NewIPPool(fmt.Sprintf("10.9.0.0/%d", bits), "10.9.0.1")
	if err != nil {
		run.Inconclusive(fmt.Sprintf("composed-%d", idx), "pool: "+err.Error())
		return false
	}
	for k := 2; k < (1<<(32-bits))-1; k++ {
		c.usable = append(c.usable, net.IPv4(10, 9, 0, byte(k)).To4())
	}
	c.pool = &recPool{inner: inner, got: map[string][]string{}}
	// sessions of other subscribers already hold addresses (never all of them)
	by := rng.IntN(3)
	if by >= len(c.usable) {
		by = len(c.usable) - 1
	}
	for k := 0; k < by; k++ {
		inner.Allocate(fmt.Sprintf("bystander-%d", k))
	}
	c.trace = append(c.trace, fmt.Sprintf("radius=%s pool=10.9.0.0/%d (%d usable, %d held by other subscribers)", c.mode, bits, len(c.usable), by))

	nLinks := 1 + rng.IntN(3)
	for k := 0; k < nLinks; k++ {
		c.links = append(c.links, c.newLink(k, rc))
	}
	defer func() {
		for _, l := range c.links {
			l.ipcp.Down()
			l.ipcp.Close()
		}
		synctest.Wait()
	}()

	// aimed openings (each is a class of ordering, the rest of the walk is free)
	l0 := c.links[0]
	switch rng.IntN(6) {
	case 0: // network-layer request before any authentication
		c.do(l0, "rcr", 0)
	case 1: // after a refused exchange
		c.do(l0, "auth-bad", 0)
		c.do(l0, "rcr", 0)
	case 2: // the usual order: accepted exchange, address negotiation, open
		c.do(l0, "auth-good", 0)
		c.do(l0, "rcr", 1)
		c.do(l0, "rcr", 4)
		c.do(l0, "rca", 0)
	case 3: // a neighbour is served while this link has not authenticated
		if len(c.links) > 1 {
			c.do(c.links[1], "auth-good", 0)
			c.do(c.links[1], "rcr", 1)
		}
		c.do(l0, "rcr", 0)
	}
	steps := 4 + rng.IntN(14)
	for s := 0; s < steps && !c.viol; s++ {
		l := c.links[rng.IntN(len(c.links))]
		var ev string
		switch x := rng.IntN(100); {
		case x < 38:
			ev = "rcr"
		case x < 46:
			ev = "rca"
		case x < 50:
			ev = "rcn"
		case x < 54:
			ev = "rtr"
		case x < 57:
			ev = "rta"
		case x < 67:
			ev = "auth-good"
		case x < 77:
			ev = "auth-bad"
		case x < 80:
			ev = "auth-err"
		case x < 83:
			ev = "auth-stale"
		case x < 88:
			ev = "sleep"
		case x < 91:
			ev = "down"
		case x < 94:
			ev = "close"
		case x < 97:
			ev = "open"
		default:
			ev = "reauth"
		}
		c.do(l, ev, 0)
	}
	return true
}

func (c *compCase) newLink(k int, rc *radius.Client) *cLink {
	rng := c.rng
	l := &cLink{name: fmt.Sprintf("L%d", k), sid: fmt.Sprintf("sess-n%d-%d", c.nonce, k), chap: rng.IntN(2) == 0, openAt: rng.IntN(3), onFail: rng.IntN(3)}
	send := func(proto uint16, d []byte) {
		if len(d) < 4 {
			return
		}
		p := linkPkt{proto: proto, code: d[0], id: d[1], data: append([]byte(nil), d[4:]...)}
		l.mu.Lock()
		l.sent = append(l.sent, p)
		if proto == protoCHAP && p.code == 1 {
			l.challengeID = p.id
		}
		if proto == protoIPCP && p.code == 1 {
			l.lastReqID, l.lastReqData = p.id, p.data
		}
		l.mu.Unlock()
	}
	icfg := pppoe.DefaultIPCPConfig()
	icfg.IPPool = c.pool
	if rng.IntN(2) == 0 {
		icfg.PrimaryDNS = net.IPv4(10, 0, 0, 53)
		icfg.SecondaryDNS = net.IPv4(10, 0, 0, 54)
	}
	l.ipcp = pppoe.NewIPCPStateMachine(icfg, l.sid, send, zap.NewNop())
	acfg := pppoe.DefaultAuthConfig()
	if l.chap {
		acfg.Protocol = pppoe.ProtocolCHAP
	}
	l.auth = pppoe.NewAuthenticator(acfg, rc, send, zap.NewNop())
	l.auth.SetOnAuthComplete(func(r *pppoe.AuthResult) {
		if r.Success {
			// the one and only place the network-layer automaton is told its lower layer is up
			l.ipcp.Up()
			if l.openAt == 1 {
				l.ipcp.Open()
			}
			return
		}
		switch l.onFail {
		case 1:
			l.ipcp.Close()
		case 2:
			l.ipcp.Down()
		}
	})
	if l.openAt == 0 {
		l.ipcp.Open()
	}
	if err := l.auth.Start(); err != nil {
		c.t.Errorf("authenticator start: %v", err)
	}
	c.trace = append(c.trace, fmt.Sprintf("%s: session %s, %s, IPCP opened %s, on refused exchange %s", l.name, l.sid,
		map[bool]string{false: "PAP", true: "CHAP"}[l.chap], []string{"at creation", "in the success callback", "by event only"}[l.openAt], []string{"nothing", "Close", "Down"}[l.onFail]))
	l.takeSent()
	return l
}

// do delivers one event to link l and judges every link afterwards. variant
// selects the request content for aimed "rcr" steps (0 = seeded choice).
func (c *compCase) do(l *cLink, ev string, variant int) {
	rng := c.rng
	what := ev
	comp := "pppoe.IPCPStateMachine.ReceivePacket"
	addrReq := false
	switch ev {
	case "rcr":
		v := variant
		if v == 0 {
			v = 1 + rng.IntN(9)
		}
		var data []byte
		var desc string
		switch v {
		case 1:
			data, desc, addrReq = opt(3, 0, 0, 0, 0), "ip=0.0.0.0", true
		case 2:
			data, desc, addrReq = opt(3, net.ParseIP(specificIPReq).To4()...), "ip=client-chosen", true
		case 3:
			ip := c.usable[rng.IntN(len(c.usable))]
			data, desc, addrReq = opt(3, ip...), "ip=pool-address("+ip.String()+")", true
		case 4:
			ip := l.offered
			desc = "ip=as-offered"
			if ip == nil {
				ip, desc = c.usable[0], "ip=first-pool-address"
			}
			data, addrReq = opt(3, ip.To4()...), true
		case 5:
			data, desc, addrReq = append(append(opt(3, 0, 0, 0, 0), opt(129, 0, 0, 0, 0)...), opt(131, 0, 0, 0, 0)...), "ip=0.0.0.0,dns=0", true
		case 6:
			data, desc, addrReq = append(opt(129, 8, 8, 8, 8), opt(3, 0, 0, 0, 0)...), "dns=8.8.8.8,ip=0.0.0.0", true
		case 7:
			data, desc = opt(129, 0, 0, 0, 0), "dns-only"
		case 8:
			data, desc = nil, "empty"
		default:
			data, desc, addrReq = append(opt(2, 0, 0x2d, 0x0f, 0x01), opt(3, 0, 0, 0, 0)...), "compression,ip=0.0.0.0", true
		}
		what = "rcr{" + desc + "}"
		_ = l.ipcp.ReceivePacket(cp(1, byte(rng.IntN(256)), data))
	case "rca":
		l.mu.Lock()
		id, d := l.lastReqID, l.lastReqData
		l.mu.Unlock()
		_ = l.ipcp.ReceivePacket(cp(2, id, d))
	case "rcn":
		l.mu.Lock()
		id := l.lastReqID
		l.mu.Unlock()
		_ = l.ipcp.ReceivePacket(cp(3, id, opt(3, 10, 0, 0, 9)))
	case "rtr":
		_ = l.ipcp.ReceivePacket(cp(5, byte(rng.IntN(256)), nil))
	case "rta":
		_ = l.ipcp.ReceivePacket(cp(6, byte(rng.IntN(256)), nil))
	case "auth-good", "auth-bad", "auth-err", "auth-stale":
		comp = "pppoe.Authenticator.ReceivePacket"
		user, delivered := c.authExchange(l, ev)
		what = ev + map[bool]string{false: "(pap)", true: "(chap)"}[l.chap]
		if delivered {
			l.attempted = true
			dec := "no-radius"
			switch c.mode {
			case "scripted":
				dec = srvScripted.decision(user)
				if dec == "" {
					dec = "radius-not-consulted"
				}
			case "unreachable":
				dec = "radius-unreachable"
			}
			what += "=>" + dec
			c.ob.count("composed_exchange_"+dec, 1)
			if dec == "no-radius" || dec == "accept" {
				if !l.authOK {
					c.ob.count("composed_links_with_accepted_auth", 1)
				}
				l.authOK = true
			} else if dec == "reject" || dec == "challenge" {
				l.refused = true
			}
		}
	case "sleep":
		d := []time.Duration{4 * time.Second, 4 * time.Second, 61 * time.Second}[rng.IntN(3)]
		what = "+" + d.String()
		comp = "pppoe.IPCPStateMachine.timeout"
		time.Sleep(d)
	case "down":
		comp = "pppoe.IPCPStateMachine.Down"
		l.ipcp.Down()
	case "close":
		comp = "pppoe.IPCPStateMachine.Close"
		l.ipcp.Close()
	case "open":
		comp = "pppoe.IPCPStateMachine.Open"
		l.ipcp.Open()
	case "reauth":
		comp = "pppoe.Authenticator.SendReauthChallenge"
		_ = l.auth.SendReauthChallenge()
	}
	synctest.Wait()
	c.shape = append(c.shape, l.name+":"+strings.SplitN(what, "=>", 2)[0])
	c.judge(l, what, comp, addrReq)
}

// authExchange sends one PAP Authenticate-Request or CHAP Response under a user
// name unique to this exchange; delivered = the packet was handed to the link's
// authenticator as a well-formed exchange.
func (c *compCase) authExchange(l *cLink, ev string) (user string, delivered bool) {
	seq := len(c.shape)
	if l.chap {
		pref := "chapno"
		if ev == "auth-good" {
			pref = "chapok"
		}
		user = fmt.Sprintf("%s-cx-n%d-%s-s%d", pref, c.nonce, l.name, seq)
		l.mu.Lock()
		id := l.challengeID
		l.mu.Unlock()
		if ev == "auth-stale" {
			id += byte(1 + c.rng.IntN(3))
		}
		v := make([]byte, 16)
		for i := range v {
			v[i] = byte(c.rng.IntN(256))
		}
		_ = l.auth.ReceivePacket(protoCHAP, cp(2, id, append(append([]byte{16}, v...), user...)))
		return user, true
	}
	pw := badPassword
	switch ev {
	case "auth-good":
		pw = goodPassword
	case "auth-err":
		pw = errPassword
	case "auth-stale":
		// truncated Authenticate-Request: never an exchange
		_ = l.auth.ReceivePacket(protoPAP, cp(1, byte(seq), []byte{9, 'x'}))
		return "", false
	}
	user = fmt.Sprintf("pap-cx-n%d-%s-s%d", c.nonce, l.name, seq)
	d := append([]byte{byte(len(user))}, user...)
	d = append(append(d, byte(len(pw))), pw...)
	_ = l.auth.ReceivePacket(protoPAP, cp(1, byte(seq), d))
	return user, true
}

func (c *compCase) judge(target *cLink, what, comp string, addrReq bool) {
	line := target.name + " " + what + " =>"
	type finding struct {
		rule, class, desc string
		l                 *cLink
	}
	var found []finding
	for _, l := range c.links {
		sent := l.takeSent()
		got := c.pool.take(l.sid)
		neg := l.ipcp.GetNegotiatedOptions().PeerIP
		st := l.ipcp.GetState()
		opened := l.ipcp.IsOpened()
		var naked, acked []string
		plainAck := 0
		var sentS []string
		for _, p := range sent {
			sentS = append(sentS, p.String())
			if p.proto != protoIPCP {
				continue
			}
			c.ob.count("composed_ipcp_packets_sent_"+cpCodeName[p.code], 1)
			if p.code != 2 && p.code != 3 {
				continue
			}
			has := false
			for _, o := range parseCPOpts(p.data) {
				if o.t != 3 {
					continue
				}
				has = true
				a := fmt.Sprintf("%x", o.d)
				if len(o.d) == 4 {
					a = net.IP(o.d).String()
					l.offered = net.IP(append([]byte(nil), o.d...))
				}
				if p.code == 3 {
					naked = append(naked, a)
				} else {
					acked = append(acked, a)
				}
			}
			if p.code == 2 && !has {
				plainAck++
			}
		}
		line += fmt.Sprintf(" %s[%s authOK=%v sent=%v pool-gave=%v peer-ip=%v]", l.name, st, l.authOK, sentS, got, neg)
		c.ob.distinct("composed_link_state_x_auth", fmt.Sprintf("%s|%v|%s", st, l.authOK, l.authClass()))
		isTarget := l == target
		if l.authOK {
			c.ob.count("composed_link_snapshots_with_accepted_auth", 1)
			c.ob.count("composed_addresses_allocated_after_accepted_auth", len(got))
			c.ob.count("composed_addresses_suggested_after_accepted_auth", len(naked))
			c.ob.count("composed_addresses_acknowledged_after_accepted_auth", len(acked))
			if isTarget && addrReq {
				c.ob.count("composed_address_requests_after_accepted_auth", 1)
			}
			if opened && isTarget {
				c.ob.count("composed_steps_on_opened_link_after_accepted_auth", 1)
			}
			continue
		}
		c.ob.count("composed_link_snapshots_judged_without_accepted_auth", 1)
		if isTarget && addrReq {
			c.reach = true
			c.ob.count("composed_address_requests_judged_without_accepted_auth", 1)
			c.ob.count("composed_address_requests_judged_"+l.authClass(), 1)
			c.ob.count("composed_address_requests_without_accepted_auth_in_state_"+st.String(), 1)
			for _, p := range sent {
				if p.proto == protoIPCP && p.code >= 2 && p.code <= 4 {
					c.ob.count("composed_address_requests_without_accepted_auth_answered_"+cpCodeName[p.code], 1)
				}
			}
		}
		if isTarget && strings.HasPrefix(what, "rcr{") && !addrReq {
			c.ob.count("composed_address_less_requests_without_accepted_auth", 1)
		}
		c.ob.count("composed_address_less_configure_acks_without_accepted_auth(not judged)", plainAck)
		where := ""
		if !isTarget {
			where = ":on-another-sessions-event"
		}
		layer := "lower-layer-down"
		if st != pppoe.IPCPStateInitial && st != pppoe.IPCPStateStarting {
			layer = "lower-layer-up"
		}
		cls := l.authClass() + ":" + layer + where
		if len(got) > 0 {
			found = append(found, finding{ruleLinkAddress, "pool-address-allocated:" + cls,
				fmt.Sprintf("the pool handed %v to session %s (%s), whose PAP/CHAP exchange has not been accepted (%s)", got, l.sid, l.name, l.authClass()), l})
		}
		if neg != nil && !l.flaggedNeg {
			l.flaggedNeg = true // a recorded address stays recorded: reported at the event after which it was first seen
			found = append(found, finding{ruleLinkAddress, "peer-address-recorded:" + cls,
				fmt.Sprintf("IPCP of session %s (%s) records peer address %v although its PAP/CHAP exchange has not been accepted (%s)", l.sid, l.name, neg, l.authClass()), l})
		}
		if len(naked) > 0 {
			found = append(found, finding{ruleLinkIPCP, "configure-nak-with-address:" + cls,
				fmt.Sprintf("IPCP of session %s (%s) suggested address %v in a Configure-Nak although its PAP/CHAP exchange has not been accepted (%s)", l.sid, l.name, naked, l.authClass()), l})
		}
		if len(acked) > 0 {
			found = append(found, finding{ruleLinkIPCP, "configure-ack-with-address:" + cls,
				fmt.Sprintf("IPCP of session %s (%s) acknowledged IP-Address %v although its PAP/CHAP exchange has not been accepted (%s)", l.sid, l.name, acked, l.authClass()), l})
		}
		if opened && !l.flaggedOpen {
			l.flaggedOpen = true
			found = append(found, finding{ruleLinkIPCP, "ipcp-opened:" + cls,
				fmt.Sprintf("IPCP of session %s (%s) is Opened although its PAP/CHAP exchange has not been accepted (%s)", l.sid, l.name, l.authClass()), l})
		}
	}
	c.trace = append(c.trace, line)
	c.ob.count("composed_steps_judged", 1)
	for _, f := range found {
		c.viol = true
		run.Violation(comp, f.rule, f.class, f.desc+" after "+what+" on "+target.name,
			map[string]any{"kind": "composed-link", "radius": c.mode, "session": f.l.sid, "trace": append([]string(nil), c.trace...)})
	}
}
