package c04

// Stand-alone pppoe.Authenticator (auth.go, anchored by the property): it
// reports success (PAP Authenticate-Ack, CHAP Success, AuthStateSuccess, the
// completion callback with Success) only for an exchange RADIUS accepted when a
// RADIUS client is configured. Sequential virtual-time bubbles (the rate
// limiter window is crossed with the fake clock).

import (
	"encoding/binary"
	"fmt"
	"testing"
	"testing/synctest"
	"time"

	"github.com/codelaboratoryltd/bng/pkg/pppoe"
	"github.com/codelaboratoryltd/bng/pkg/radius"
	"go.uber.org/zap"
)

const ruleAuthenticator = "success-only-if-radius-accepted"

type authPkt struct {
	proto uint16
	code  byte
	id    byte
}

func TestAuthenticator(t *testing.T) {
	n := run.Pick(400, 6000)
	ob := newObs()
	for i := 0; i < n; i++ {
		rng := run.SubRand("authenticator", i)
		mode := []string{"none", "scripted", "scripted", "unreachable"}[rng.IntN(4)]
		if mode == "unreachable" && closedPort == 0 {
			mode = "scripted"
		}
		chap := rng.IntN(2) == 0
		steps := 1 + rng.IntN(12)
		var trace []string
		synctest.Test(t, func(t *testing.T) {
			var rc *radius.Client
			if mode != "none" {
				port := srvScripted.port
				if mode == "unreachable" {
					port = closedPort
				}
				var err error
				rc, err = radius.NewClient(radius.ClientConfig{Servers: []radius.ServerConfig{{Host: "127.0.0.1", Port: port, Secret: radiusSecret}},
					NASID: "c04-nas", Timeout: 5 * time.Second, Retries: 1, RateLimit: radius.RateLimitConfig{RequestsPerSecond: 1e6, BurstSize: 100000}}, zap.NewNop())
				if err != nil {
					t.Errorf("radius client: %v", err)
					return
				}
			}
			cfg := pppoe.DefaultAuthConfig()
			if chap {
				cfg.Protocol = pppoe.ProtocolCHAP
			}
			var sent []authPkt
			var challengeID byte
			a := pppoe.NewAuthenticator(cfg, rc, func(proto uint16, d []byte) {
				if len(d) >= 2 {
					sent = append(sent, authPkt{proto, d[0], d[1]})
					if proto == pppoe.ProtocolCHAP && d[0] == 1 {
						challengeID = d[1]
					}
				}
			}, zap.NewNop())
			var cb []*pppoe.AuthResult
			a.SetOnAuthComplete(func(r *pppoe.AuthResult) { cb = append(cb, r) })
			if err := a.Start(); err != nil {
				t.Errorf("start: %v", err)
				return
			}
			nonce := userNonce.Add(1)
			for s := 0; s < steps; s++ {
				sent, cb = sent[:0], cb[:0]
				before := a.GetState()
				user, what := "", ""
				var pkt []byte
				proto := uint16(pppoe.ProtocolPAP)
				switch x := rng.IntN(10); {
				case x == 0:
					time.Sleep(61 * time.Second)
					what = "+61s"
				case x == 1:
					_ = a.SendReauthChallenge()
					what = "reauth-challenge"
				case x < 6:
					pw := []string{goodPassword, badPassword, badPassword, errPassword}[rng.IntN(4)]
					user = fmt.Sprintf("pap-n%d-s%d", nonce, s)
					d := append([]byte{byte(len(user))}, user...)
					d = append(append(d, byte(len(pw))), pw...)
					pkt = cp(1, byte(s), d)
					what = "pap(" + map[string]string{goodPassword: "good", badPassword: "bad", errPassword: "err"}[pw] + ")"
				default:
					proto = pppoe.ProtocolCHAP
					pref := []string{"chapok", "chapno"}[rng.IntN(2)]
					user = fmt.Sprintf("%s-n%d-s%d", pref, nonce, s)
					id := challengeID
					if rng.IntN(4) == 0 {
						id += byte(1 + rng.IntN(3))
					}
					v := make([]byte, 16)
					binary.BigEndian.PutUint64(v, rng.Uint64())
					pkt = cp(2, id, append(append([]byte{16}, v...), user...))
					what = fmt.Sprintf("chap-response(%s,id=%d,challenge=%d)", pref, id, challengeID)
				}
				if pkt != nil {
					_ = a.ReceivePacket(proto, pkt)
				}
				after := a.GetState()
				var signals []string
				for _, p := range sent {
					if p.proto == pppoe.ProtocolPAP && p.code == 2 {
						signals = append(signals, "PAP-Ack")
					}
					if p.proto == pppoe.ProtocolCHAP && p.code == 3 {
						signals = append(signals, "CHAP-Success")
					}
				}
				for _, r := range cb {
					if r.Success {
						signals = append(signals, "callback-Success")
					}
				}
				if before != pppoe.AuthStateSuccess && after == pppoe.AuthStateSuccess {
					signals = append(signals, "state-Success")
				}
				trace = append(trace, fmt.Sprintf("%s => state %s sent=%v signals=%v", what, after, sent, signals))
				ob.count("authenticator_steps_judged", 1)
				ob.distinct("authenticator_state_step_pairs", before.String()+"|"+what[:3]+"|"+mode+"|"+after.String())
				dec := "no-radius"
				if mode == "scripted" {
					dec = srvScripted.decision(user)
					if dec == "" {
						dec = "radius-not-consulted"
					}
				} else if mode == "unreachable" {
					dec = "radius-unreachable"
				}
				if pkt != nil {
					ob.count("authenticator_exchange_"+dec, 1)
				}
				if len(signals) == 0 {
					continue
				}
				ob.count("authenticator_success_signals", len(signals))
				if pkt != nil && (dec == "no-radius" || dec == "accept") {
					continue
				}
				comp := "pppoe.Authenticator.handlePAPAuthRequest"
				if proto == pppoe.ProtocolCHAP {
					comp = "pppoe.Authenticator.handleCHAPResponse"
				}
				if pkt == nil {
					comp, dec = "pppoe.Authenticator", "no-exchange"
				}
				run.Violation(comp, ruleAuthenticator, dec,
					fmt.Sprintf("the authenticator signalled success (%v) for an exchange that RADIUS did not accept (%s)", signals, dec),
					map[string]any{"radius": mode, "chap": chap, "trace": append([]string(nil), trace...)})
			}
		})
		run.Eval()
		run.Count("cases_authenticator", 1)
		if i == 3 {
			run.Sample(map[string]any{"kind": "authenticator", "radius": mode, "chap": chap, "trace": trace})
		}
		progress.Add(1)
	}
	ob.flush()
}
