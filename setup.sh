#!/bin/bash
# Builds the framework offline from files on disk: warms the Go build cache by compiling every
# harness test binary (with -tags verif, -race where the check uses it) and the C plane.
set -u
cd "$(dirname "$0")"
. ./env.sh
mkdir -p .build evidence replays
rc=0
if [ -x cplane/build.sh ]; then cplane/build.sh > .build/setup.cplane.log 2>&1 || { echo "cplane build failed"; tail -20 .build/setup.cplane.log; rc=1; }; fi
cd harness
for d in c[0-9][0-9]_*/; do
  d=${d%/}
  id=$(echo "$d" | sed 's/^c\([0-9][0-9]\)_.*/C\1/')
  race=""
  if grep -qE "^\s*$id\) .*RACE=-race" ../check; then race=-race; fi
  "$VGO" test -c -tags verif $race -vet=off -o ../.build/$id.test ./$d/ > ../.build/setup.$id.log 2>&1 || { echo "build of $d failed"; tail -20 ../.build/setup.$id.log; rc=1; }
done
exit $rc
