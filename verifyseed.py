#!/usr/bin/env python3
"""verifyseed.py <seed-dir-name>...  : confirms a seeded change in a scratch worktree of /repo's HEAD:
   demo passes without the patch, fails with it, the touched packages' existing tests still pass with it,
   and the tree builds. Writes seeded/<name>/verify.json. Nothing is applied to /repo itself."""
import json, os, re, subprocess, sys, shutil, glob

GO = "/root/go/pkg/mod/golang.org/toolchain@v0.0.1-go1.25.0.linux-amd64/bin/go"
ENV = dict(os.environ, GOTOOLCHAIN="local", GOFLAGS="-mod=mod", GOPROXY="off", GOSUMDB="off")

def sh(cmd, cwd=None, timeout=1200):
    p = subprocess.run(cmd, shell=True, cwd=cwd, env=ENV, capture_output=True, text=True, timeout=timeout)
    return p.returncode, (p.stdout + p.stderr)

def demo_dir(sd):
    try:
        m = json.load(open(os.path.join(sd, "meta.json")))
        d = m.get("demo_pkg_dir") or m.get("demo_dir") or ""
        if d:
            return d.strip().strip("/").replace("/tmp/", "")
    except Exception:
        pass
    for f in ("DEMO_LOCATION.txt", "NOTE.txt"):
        p = os.path.join(sd, f)
        if os.path.exists(p):
            m = re.search(r"(pkg/[a-z0-9_/]+)", open(p).read())
            if m:
                return m.group(1).rstrip("/")
    return ""

def main():
    for name in sys.argv[1:]:
        sd = f"/verif/seeded/{name}"
        w = f"/tmp/vseed-{name}"
        sh(f"rm -rf {w}; git -C /repo worktree prune; git -C /repo worktree add -q --detach {w} HEAD")
        res = {"seed": name, "repo_head": sh("git -C /repo rev-parse --short HEAD")[1].strip()}
        try:
            dd = demo_dir(sd)
            demo = os.path.join(sd, "zz_seeded_demo_test.go")
            res["demo_pkg_dir"] = dd
            if not dd or not os.path.exists(demo):
                res["status"] = "no-demo-or-location"
                continue
            touched = sorted(set(os.path.dirname(m) for m in re.findall(r"^\+\+\+ b/(\S+)", open(os.path.join(sd, "patch.diff")).read(), re.M)))
            res["touched_dirs"] = touched
            shutil.copy(demo, os.path.join(w, dd, "zz_seeded_demo_test.go"))
            pat = "'(?i)seeded'"
            rc0, out0 = sh(f"{GO} test -vet=off -count=1 -run {pat} ./{dd}/", cwd=w)
            res["demo_without_patch"] = "PASS" if rc0 == 0 else "FAIL"
            res["demo_without_tail"] = out0[-600:]
            rc, out = sh(f"git apply {sd}/patch.diff", cwd=w)
            if rc != 0:
                res["status"] = "patch-does-not-apply"
                res["apply_err"] = out[-400:]
                continue
            rc1, out1 = sh(f"{GO} test -vet=off -count=1 -run {pat} ./{dd}/", cwd=w)
            res["demo_with_patch"] = "PASS" if rc1 == 0 else "FAIL"
            res["demo_with_tail"] = out1[-600:]
            os.remove(os.path.join(w, dd, "zz_seeded_demo_test.go"))
            pk = " ".join("./" + t + "/" for t in touched if t.startswith("pkg/") or t.startswith("cmd/"))
            if pk:
                rc2, out2 = sh(f"{GO} test -vet=off -count=1 {pk}", cwd=w)
                res["existing_tests_with_patch"] = "PASS" if rc2 == 0 else "FAIL"
                if rc2 != 0:
                    res["existing_tail"] = out2[-800:]
            else:
                res["existing_tests_with_patch"] = "n/a (C sources are not exercised by the suite)"
            rc3, out3 = sh(f"{GO} build ./...", cwd=w)
            res["build_with_patch"] = "OK" if rc3 == 0 else "FAIL"
            ok = res["demo_without_patch"] == "PASS" and res["demo_with_patch"] == "FAIL" and res["existing_tests_with_patch"] != "FAIL" and rc3 == 0
            res["status"] = "confirmed" if ok else "not-confirmed"
        finally:
            sh(f"git -C /repo worktree remove --force {w}")
            json.dump(res, open(os.path.join(sd, "verify.json"), "w"), indent=1)
            print(name, res.get("status"), res.get("demo_without_patch"), res.get("demo_with_patch"), res.get("existing_tests_with_patch"), res.get("build_with_patch"))

main()
