# sourced by ./check and setup: offline Go 1.25 toolchain
export GOTOOLCHAIN=local GOFLAGS=-mod=mod GOPROXY=off GOSUMDB=off
VGOROOT=/root/go/pkg/mod/golang.org/toolchain@v0.0.1-go1.25.0.linux-amd64
if [ ! -x "$VGOROOT/bin/go" ]; then
  # fall back to whatever `go` resolves to inside /repo (auto toolchain switch)
  VGOROOT=$(cd /repo && GOTOOLCHAIN=auto GOSUMDB= GOFLAGS=-mod=mod go env GOROOT)
fi
export VGO="$VGOROOT/bin/go"
export PATH="$VGOROOT/bin:$PATH"
