#!/bin/bash
# ./ingest.sh <ID>  : take the round-6 output of a mutation agent from /tmp/r6out/<ID>-r6m{1,2}, confirm each change in a
# scratch worktree (verifyseed.py) and run the property's quick check against it (seedtest.sh).
cd /verif
for k in 1 2; do
  n=$1-r6m$k
  [ -f /tmp/r6out/$n/patch.diff ] || { echo "$n: no patch"; continue; }
  mkdir -p seeded/$n; cp /tmp/r6out/$n/patch.diff /tmp/r6out/$n/meta.json seeded/$n/ 2>/dev/null
  cp /tmp/r6out/$n/zz_seeded_demo_test.go seeded/$n/ 2>/dev/null || cp /tmp/r6out/$n/*_test.go seeded/$n/zz_seeded_demo_test.go
  python3 verifyseed.py $n
  ./seedtest.sh $n $1 quick
done
