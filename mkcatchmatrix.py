#!/usr/bin/env python3
"""mkcatchmatrix.py: rewrites the block between <!-- CATCH-MATRIX-BEGIN --> and <!-- CATCH-MATRIX-END --> in DESIGN.md
from seeded/RESULTS.tsv (written by seedmatrix.sh), seeded/<seed>/meta.json and verify.json; also records the outcome in
each seed's meta.json under "framework_result"."""
import json, os, re, sys
R = {}
for l in open('/verif/seeded/RESULTS.tsv'):
    if l.startswith('#') or not l.strip():
        head = l.strip() if l.startswith('#') else None
        continue
    f = l.rstrip('\n').split('\t')
    R[f[0]] = dict(check=f[1], tier=f[2], exit=f[3], outcome=f[4], first=f[5] if len(f) > 5 else '')
extra = {}
if os.path.exists('/verif/seeded/NOTES.json'):
    extra = json.load(open('/verif/seeded/NOTES.json'))
rows = []
recs = []
tot = dict(caught=0, missed=0, other=0, neutral=0)
for s in sorted(os.listdir('/verif/seeded')):
    d = f'/verif/seeded/{s}'
    if not os.path.isdir(d) or not os.path.exists(f'{d}/patch.diff'):
        continue
    meta = {}
    try:
        meta = json.load(open(f'{d}/meta.json'))
    except Exception:
        pass
    ver = {}
    try:
        ver = json.load(open(f'{d}/verify.json'))
    except Exception:
        pass
    files = meta.get('files_changed') or ver.get('touched_dirs') or []
    if isinstance(files, str):
        files = [files]
    r = R.get(s, {})
    note = extra.get(s, '')
    oc = r.get('outcome', 'not run')
    if note.startswith('neutral') or note.startswith('no longer applies'):
        oc = 'n/a'
        tot['neutral'] += 1
    elif oc == 'caught':
        tot['caught'] += 1
    elif oc == 'missed':
        tot['missed'] += 1
    else:
        tot['other'] += 1
    what = (meta.get('clause_broken') or '')
    what = re.sub(r'\s+', ' ', str(what))[:150]
    first = r.get('first', '')
    if len(first) > 90:
        first = first[:90] + '…'
    what = what.replace('|', '/')
    recs.append((s, what, oc, (first + ' ' + note).strip()))
    rows.append(f"| {s} | {', '.join(os.path.basename(x) for x in files)[:40]} | {what} | {ver.get('status','-')} | {oc} | {first} {note} |")
    if meta:
        meta['framework_result'] = dict(check=r.get('check'), tier=r.get('tier'), outcome=oc, first_finding=r.get('first', ''), note=note)
        json.dump(meta, open(f'{d}/meta.json', 'w'), indent=1)
head_line = (f"{len(rows)} seeded changes; quick tier of the property's own check against a scratch copy with the change applied: "
             f"**{tot['caught']} caught, {tot['missed']} missed, {tot['other']} other (inconclusive / not run), {tot['neutral']} no longer behaviour-changing on the repaired tree**.")
table = [head_line, "", "| seed | file(s) | clause broken (from the seed's meta.json) | re-confirmed on HEAD | own check, quick | first finding / note |", "|---|---|---|---|---|---|"] + rows
open('/verif/seeded/CATCH-MATRIX.md', 'w').write("# Which check catches which seeded change (written by mkcatchmatrix.py from RESULTS.tsv)\n\n" + "\n".join(table) + "\n")
# DESIGN.md carries the totals, the per-round counts and every seed that is not caught by its own check (with the note)
rounds = {}
for s_ in sorted(os.listdir('/verif/seeded')):
    if not os.path.exists(f'/verif/seeded/{s_}/patch.diff'):
        continue
    m = re.match(r'C\d\d-(?:r(\d)m|m|x)', s_)
    rd = 'own regression seeds (x)' if '-x' in s_ else ('round ' + (m.group(1) or '1') if m else '?')
    oc = R.get(s_, {}).get('outcome', 'not run')
    if extra.get(s_, '').startswith('neutral') or extra.get(s_, '').startswith('no longer applies'):
        oc = 'n/a'
    rounds.setdefault(rd, {}).setdefault(oc, 0)
    rounds[rd][oc] += 1
out = ["<!-- CATCH-MATRIX-BEGIN -->", head_line + " Full table: `seeded/CATCH-MATRIX.md`; raw outcomes: `seeded/RESULTS.tsv`.", "",
       "| round | caught | missed | n/a (neutral on the repaired tree) | other |", "|---|---|---|---|---|"]
for rd in sorted(rounds):
    c = rounds[rd]
    out.append(f"| {rd} | {c.get('caught',0)} | {c.get('missed',0)} | {c.get('n/a',0)} | {sum(v for k,v in c.items() if k not in ('caught','missed','n/a'))} |")
out += ["", "Seeds not reported by their own property's quick check on the final tree:", "", "| seed | clause broken | note |", "|---|---|---|"]
for (sd, what_, oc_, note_) in recs:
    if oc_ != 'caught':
        out.append(f"| {sd} | {what_} | {oc_}: {note_} |")
out.append("<!-- CATCH-MATRIX-END -->")
p = '/verif/DESIGN.md'
s = open(p).read()
if '<!-- CATCH-MATRIX-BEGIN -->' in s:
    s = re.sub(r'<!-- CATCH-MATRIX-BEGIN -->.*?<!-- CATCH-MATRIX-END -->', lambda m: "\n".join(out), s, flags=re.S)
else:
    s += "\n" + "\n".join(out) + "\n"
open(p, 'w').write(s)
print(tot)
