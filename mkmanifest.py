#!/usr/bin/env python3
"""Regenerates MANIFEST.json from the table below (run after adding a check)."""
import json, os, subprocess

V = os.path.dirname(os.path.abspath(__file__))

# id: (package dir, level, technique, level text, level note, design ref)
CHECKS = {
 "C01": ("c01_pools", "exploration",
         "shadow-model monitor over real API histories (exhaustive small scope + seeded random walks) + porcupine linearizability of concurrent histories under the Go race detector",
         "Runs every pool implementation (bitmap, epoch, distributed session/lease, PoolAllocator, LocalAllocator, DHCPv4, DHCPv6 address/prefix, PPPoE, peer-local, nexus hash) through all operation histories up to subscriber renaming on <=16-unit geometries (depth 5 quick / 6-7 thorough), seeded random walks on large pools, and concurrent histories checked for linearizability against an ownership model; every returned value is judged by an independent netip-based oracle for uniqueness, range and same-value-on-re-ask. Held-on-what-was-observed, not a proof.",
         "Trusted: the harness's ownership model and net/netip; Go race detector and porcupine v1.3.0. Exhaustive only inside the stated small scopes; large pools and schedules are sampled.",
         "DESIGN.md §5 C01"),
 "C05": ("c05_conservation", "fault_enumeration",
         "conservation monitor: shadow-model + drain-to-exhaustion oracle over real API histories with a store-write fault armed at every history position; Go race detector",
         "After every history (exhaustive to depth 5/7 on small geometries incl. a fault symbol that fails the next store write, epoch-wrap walks with 0..12 epoch advances between operations, seeded random walks with faults on large pools) the pool is drained with fresh subscribers and usable = held + obtainable is judged on measured values; Stats/List are compared with the model after every operation; exhaustion is accepted only when every usable unit is held.",
         "Trusted: the ownership/lease model (held iff epochs since last renew <= grace), documented usable-unit counts per implementation. Grace periods 1-2 only. Store faults are injected at the Store/AllocationStore interface boundary.",
         "DESIGN.md §5 C05"),
 "C12": ("c12_restart", "fault_enumeration",
         "restart-from-snapshot monitor: the real DistributedAllocator is restarted from the store snapshot taken after every store operation (several Query enumeration orders), store-write faults are injected at every history position, remote announcements are delivered to peer nodes in permuted order, and marshal/unmarshal round trips are compared by a query battery",
         "Every (history, crash point after store op k, enumeration order) is judged against the records in snapshot k: each live record's subscriber must map to the recorded address after restart and no address to two subscribers; every injected store failure must leave memory and store in agreement; every delivered remote announcement for a locally free address must be applied with the announced address; restored allocators must answer a full query battery identically and agree on the success of a continuation. Epoch ticks run through the allocator's own ticker under testing/synctest.",
         "Trusted: the harness Store (in-memory, implements allocator.Store) and the reading in DESIGN 5b (lapsed lease records create no obligation; single restart). Crash = abandon the object after store op k and restart over a snapshot: exact because all durable state is behind the Store interface.",
         "DESIGN.md §5 C12"),
 "C18": ("c18_antispoof", "exploration",
         "differential execution of the real TC program (native ASan/UBSan build with guard pages + in-kernel BPF_PROG_TEST_RUN) on maps written by the real antispoof.Manager, judged by a reference decision function written from the property",
         "All combinations of default mode x binding shape (absent, v4, v6, dual in both orders, removed, re-bound) x mode in force when bound x allowed-range sets, each probed with bound / near-miss / byte-reversed / random IPv4 and IPv6 sources, non-IP frames and every truncation; the maps are produced by the manager's own code writing into kernel maps of the loaded working-tree object, so key and value encodings are the real ones.",
         "Trusted: the reference decision function; the native shim (cross-checked frame by frame against the in-kernel run; a disagreement is reported inconclusive). IPv6 loose mode is not judged.",
         "DESIGN.md §5 C18"),
 "C11": ("c11_ppp_fsm", "exploration",
         "online trace monitor over the real LCP/IPCP/IPv6CP automata under testing/synctest virtual time: breadth-first exploration of event sequences with state fingerprinting plus seeded random walks, each ending in a silent-peer run",
         "The monitor reconstructs, only from packets handed to the send callback and events delivered, whether the peer acked our latest Configure-Request and whether we acked the peer's latest one; IsOpened is judged against that after every event, leave-Opened events are judged, every reply is checked (identifier echo, Ack data byte-identical, Nak/Reject only offending options, IPCP acks only the assigned address) and every sequence ends with (MaxConfigure+MaxTerminate+2) x RestartTimer of silence after which the automaton must rest with bounded retransmissions. BFS to depth 7 (quick) / fixed point or depth 16 (thorough) over 9 automaton configurations, timer-vs-packet orders forced both ways.",
         "Trusted: the monitor's reading of 'acknowledged' (identifier match) and testing/synctest virtual time. Malformed packets are C09's alphabet. Default-parameter configurations do not reach a BFS fixed point within the depth bound.",
         "DESIGN.md §5 C11"),
 "C17": ("c17_hrw", "exploration",
         "cross-node agreement monitor: many independently configured real PeerPool nodes are compared with each other (never with a re-implementation of the hash), health is set only through the real checkPeer against harness HTTP servers, and 3-node clusters are driven end to end over loopback HTTP",
         "For 134+ peer sets (sizes 1-8, arbitrary strings) x all configuration orders (all permutations up to size 5) x 10^3-10^4 subscriber ids: same owner on every node, ranked list starts with the owner and is a permutation of the peer set, removal/unhealthy moves only the affected peer's subscribers (all 2^n health vectors for n<=4/6), and a request entering at any of 3 real nodes is served by exactly one pool with the same NodeID.",
         "Trusted: the comparison logic; loopback HTTP. FNV-64 score ties are not generated; concurrent ring changes are outside C17's quantifier.",
         "DESIGN.md §5 C17"),
 "C06": ("c06_layout", "other",
         "executed differential layout check: BTF of the compiled working-tree objects vs the Go mirror types' encoding/binary layout, sentinel round trips through the real control-plane APIs into kernel maps of the loaded objects, derived keys compared with the key bytes the natively executed program passes to bpf_map_lookup_elem, and C-laid-out values read back through the Go getters",
         "Every (Go type, C declaration) pair used as a map key/value or event record in bpf/*.c and pkg/{ebpf,nat,qos,antispoof} is compared member by member (size, offset, width; C offsets come from the object's BTF or, for event records, from offsetof in the natively compiled unit); real manager calls write sentinels that must appear at the C member's offset in the byte order the program consumes; MAC/VLAN/circuit-id keys and the FNV hash are compared for hundreds to tens of thousands of random inputs (hardware address lengths 6-16, PCP bits, embedded NULs) against the executed program; getters are run against the real per-CPU maps.",
         "Trusted: cilium/ebpf's BTF reader and marshalling rules; the table pairing map names with Go types (a Go-side rename breaks the build, an unlisted map used by Go is reported inconclusive). pkg/walledgarden has no C counterpart and is not claimed. NAT address byte order is a listed known finding.",
         "DESIGN.md §5 C06"),
 "C14": ("c14_failover", "exploration",
         "online monitor over the real FailoverController + HealthMonitor under testing/synctest virtual time: BFS with state fingerprinting over health probes, exact timer deltas, operator commands and callback outcomes, seeded random walks, and concurrent rounds under the Go race detector",
         "Every standby->active change is judged against the down intervals computed from the injected probe results and the documented thresholds (sustained for FailoverDelay, recovery before the delay cancels), role changes require a nil-returning callback, completed events equal promotions, failback only while the partner is healthy, and no in-progress state may outlive GracePeriod without a transition; observations are taken at every instant derived from the configured delays (+-1 ns).",
         "Trusted: the reference model of partner up/down from thresholds; synctest virtual time. The HTTP probe path and callbacks that take virtual time are not driven; BFS fingerprint pruning is an abstraction (random walks and concurrent rounds are not pruned).",
         "DESIGN.md §5 C14"),
 "C15": ("c15_coa", "exploration",
         "independent-implementation oracle (RFC 5176/2865 request authenticator) over the real CoA listener on loopback UDP in a child process, every datagram followed by an authentic fence probe so that 'no effect' is decided without a clock",
         "For 50 (quick) / 1200 (thorough) signed base requests with distinct secrets: every bit flip of the first 64 octets, every octet substitution beyond, every length-field value, every truncation, re-signing with neighbouring secrets, padding with forged attributes, other codes and malformed attributes; handler invocations, responses (identifier echo, response authenticator, code consistency) and session changes are judged against the oracle; a listener death is confirmed on a fresh process and attributed to the datagram.",
         "Trusted: the harness's MD5 oracle; loopback delivery (responses are attributed by identifier, in any order). MD5 collisions and responses sent elsewhere are out of reach.",
         "DESIGN.md §5 C15"),
 "C19": ("c19_qos", "exploration",
         "exact integer-arithmetic contract monitor over verdict sequences of the natively compiled TC programs (ASan/UBSan, scripted clock) with buckets written by the real qos.Manager into kernel maps of the loaded object; adaptive backlogged sources for the lower bound",
         "Every window of every arrival sequence (sizes 1-65535, gaps 0 ns to days, clock origins to 2^63, rates 1 kbit/s-100 Gbit/s, bursts 1-2^32-1, policy replacement sequences) is judged in big-integer arithmetic against burst + rate x window; sources that always have a packet waiting (next packet at the same instant after an admit, retry after a gap when dropped, gaps down to below one byte-time) are judged against rate x window - burst - M; rate 0 must admit everything; a frame addressed to the subscriber must find the bucket the manager wrote.",
         "Trusted: the contract arithmetic (one nanosecond of credit per clock observation allowed either way); the native shim (the same object is loaded in the kernel for the maps; the clock cannot be scripted there). Lower bound only under the premises of DESIGN 5b.",
         "DESIGN.md §5 C19"),
 "C20": ("c20_keys", "exploration",
         "bijection shadow-model monitor over the real key allocators and indexes: bounded-exhaustive histories (replayed from scratch, symmetry-pruned) plus seeded random walks, ending in drain-to-exhaustion; circuit-id key families compared pairwise and driven through real kernel hash maps",
         "After every operation forward and reverse lookups are compared with the model for VLANAllocator, qinq.Mapper, pppoe.SessionManager (incl. id wrap-around and two sessions from one MAC), MemoryAllocationStore, subscriber.Manager and state.Store; ranges are checked; every history ends by draining the allocator so a released key must be obtainable again; for stores that cannot refuse a duplicate key the weaker sole-holder oracle of DESIGN 5b is used.",
         "Trusted: the bijection model. 64-bit FNV collisions cannot be generated; concurrency is outside C20's quantifier. state.Store index defects are listed known findings.",
         "DESIGN.md §5 C20"),
 "C04": ("c04_pppoe_auth", "exploration",
         "permission-automaton monitor over the real pppoe.Server receive and cleanup loops on an in-memory raw socket under testing/synctest, with the real radius.Client against a scripted loopback RADIUS server; BFS with fingerprint pruning plus seeded random walks",
         "The monitor grants a session permission only when a PAP exchange carried by frames from the MAC that created the session was accepted (by the scripted RADIUS when one is configured); Established, an assigned client address or an acknowledged/Nak-with-address IPCP exchange without permission is a violation; for every frame every session owned by another MAC must have an identical snapshot before and after. 67-letter alphabet (frame kinds x own id / other live id / foreign station / dead id, idle tick), depth 4 quick / 6 thorough over 4 configurations, RADIUS accept/reject/challenge/unreachable/timeout.",
         "Trusted: the monitor's ownership record (taken from the PADR source, never from the server's own field) and the hand-rolled RFC 2865 server. CHAP is not dispatched by the server; malformed frames are C09's.",
         "DESIGN.md §5 C04"),
 "C07": ("c07_bounds", "exploration",
         "sanitizer + guard-page monitor: every XDP/TC program of bpf/*.c compiled natively with ASan+UBSan (reports fatal) executes frames placed flush against an inaccessible page on either side; pass-verdict byte-diff oracle driven by the program's own map-lookup log; the -target bpf object must pass the in-kernel verifier and agree with the native run",
         "Seven programs x three map states (empty, populated through the real Go managers via kernel maps, adversarial values) x every truncation of ~300 structured frame families (Ethernet/802.1Q/QinQ/triple tags, IHL 0-15, DHCP with option 53/82 at every probed offset, relayed, short options, TCP/UDP/ICMP/GRE/fragments/IPv6/ARP) and random bytes of every length 0-1600, both placements: no sanitizer report or fault, defined verdict, pass verdict => frame byte-identical unless the program's NAT-state lookups matched.",
         "Trusted: the native shim executes the same C semantics but not the BPF instruction stream (the kernel run cross-checks full-length frames); red zones/guard pages do not see intra-object overflows; verifier acceptance is recorded separately.",
         "DESIGN.md §5 C07"),
 "C10": ("c10_nat", "exploration",
         "shadow-model monitor over real nat.Manager histories (exhaustive + random), a second log-only model replayed from the real nat.Logger output for attribution, porcupine per-subscriber linearizability and pairwise disjointness of concurrent histories under the Go race detector",
         "Every returned block is judged for range, size, disjointness from every live block on the public address and stability until release; after every operation the log alone (plus configured block size) must attribute every probed (public address, port, instant) to exactly the subscriber the manager's return values say; concurrent families F1-F3 (allocate-only, mixed, same-IP races) run at GOMAXPROCS 2/4/16.",
         "Trusted: the block/attribution models; virtual time for log timestamps. The DHCP server call sites only forward to the manager and are not driven.",
         "DESIGN.md §5 C10"),
 "C03": ("c03_fastpath", "exploration",
         "differential monitor: cache states produced by driving the real dhcp.Server (loader over kernel maps of the loaded working-tree object) are copied into the natively compiled XDP program (ASan/UBSan, guard pages, scripted clock); every transmitted reply is parsed by an independent parser and compared field by field with the userspace reply for the same client at that moment; the in-kernel BPF_PROG_TEST_RUN cross-checks the native run",
         "A scripted matrix (renewal option-82 shape x RELEASE/DECLINE/expiry x 5 pool configurations) plus 300 (quick) / 6000 (thorough) seeded histories of direct and relayed clients; after every step every client is probed with DISCOVER/REQUEST frames (untagged, 802.1Q, QinQ, option 53 at several offsets, broadcast flag, ciaddr, IP options, short/long option areas, relayed with its circuit-id, huge kernel clock): a TX reply must be a well-formed Ethernet/IPv4/UDP/BOOTP frame (checksum, lengths, xid, chaddr, OFFER/ACK) carrying userspace's yiaddr, server id, mask, router, DNS and lease time; a PASS must be byte-identical; a client without a current binding must not be answered under any key it was cached under.",
         "Trusted: the independent reply parser; the native shim (cross-checked against the kernel run on every transmitted reply). The fast path is not required to answer, only to answer correctly; the VLAN-pair cache is never written by the slow path and is exercised only as a probe key.",
         "DESIGN.md §5 C03"),
 "C13": ("c13_hasync", "exploration",
         "history monitor with unique op ids: layer A drives the real PushChange/handleGetSessions/performFullSync/handleSSEData exhaustively in memory; layer B runs a real active and standby HASyncer over loopback HTTP/SSE through a harness-owned reverse proxy that gates, delays and cuts the snapshot GET and the stream, under the Go race detector; losses are decided by FIFO sentinels, never by a clock",
         "(i) after every completed full sync the standby's store and received-session map equal the snapshot body the active actually served; (ii) for every connected interval the applied op ids are exactly the pushes that returned inside it, in push order (lost / reordered / duplicated / never-pushed classes named from the wire log); (iii) at every settle point (link up, sentinel applied) the tables are equal, each difference attributed to its last change. Layer A: exhaustive up to session renaming at (depth, ids) (6,2),(5,3),(4,4) quick / (8,2),(7,3),(6,4) thorough in immediate and one-step-lag delivery, plus random walks with failed GETs; layer B: 72 / 1000 scenarios with bursts to 1200, stalled links, clean and aborted cuts.",
         "Trusted: the push/store/wire logs stamped from one counter; FIFO of the client channel and the HTTP stream. One standby; TLS mode not driven.",
         "DESIGN.md §5 C13"),
 "C08": ("c08_accounting", "fault_enumeration",
         "crash-point enumeration: the real AccountingManager runs in child processes inside a testing/synctest bubble against a scripted loopback UDP RADIUS server owned by the parent; each script runs un-killed once and then once per (verifPoint marker, occurrence) with SIGKILL there, followed by restart from the same persistence directory and a quiesce incarnation; the oracle judges the concatenated stream of accepted Accounting-Requests and the directory contents",
         "Per session over all incarnations: Stop only after Start, no record for an unstarted id, every started session eventually has an accepted Stop (or it is durably queued while the server stays down), exactly one Stop absent a crash, records carry the session's own identifiers (hardware addresses of 0-20 bytes), gigawords*2^32+octets equals the 64-bit counter for boundary and random values. 35 scripts / 721 kill cases in quick, 400 / 7629 in thorough, outages decided per transmission (closed port).",
         "Trusted: the scripted RADIUS server's attribute decoder and retransmission collapsing; SIGKILL keeps completed writes (torn writes and fsync/power-loss durability are not reached); outages stay within the retry budget.",
         "DESIGN.md §5 C08"),
 "C09": ("c09_decoders", "exploration",
         "decoder hammer under the race-detector build (checkptr): 30 network-facing entry points in every protocol state are fed systematic and seeded mutants in child processes with a journal-before-feed protocol; recovered panics, process deaths, receive-buffer over-read markers, a reproduced 10 s watchdog and a CPU-time scaling probe are the oracles",
         "Every entry point (PPPoE parsers and server receive loop with sessions in every phase, LCP/IPCP/IPv6CP in all 10 states, PAP/CHAP, keep-alive, DHCPv4 handler and option 82, DHCPv6 message and nested option parsers and handler, CoA listener, RADIUS attributes and client response path, HA sync decoder and handler, FTP/SIP ALG, ZTP vendor options) gets truncation at every byte, interesting length values and 20k (quick) / 100k (thorough) seeded mutants of 0-2048 bytes; inputs are passed with cap == len so any over-read panics; a child death is attributed to the journalled input and reproduced in a fresh process.",
         "Trusted: panic attribution by innermost bng frame; the scaling probe only refutes gross super-quadratic behaviour (>= 6x per doubling twice), it cannot establish linearity.",
         "DESIGN.md §5 C09"),
 "C02": ("c02_dhcp", "exploration",
         "reference binding-table monitor fed only by observed replies (decoded with an independent DHCP library) over the real DHCPv4 and DHCPv6 servers under testing/synctest virtual time: BFS with fingerprint pruning, seeded random walks, end-of-history drains, and concurrent handler runs in a child process under the Go race detector",
         "On every OFFER/ACK/Advertise/Reply: no other client holds an unexpired binding on or an outstanding offer of the value, the value lies in the pool and is not the gateway, network or broadcast address, a renewal of an own unexpired binding is answered with the same value, a declined value is never offered or acked again, and after RELEASE or expiry+tick fresh clients draining the pool obtain the value; the lease table and pool snapshot are compared after every message and time step. v4: DISCOVER/REQUEST (selecting, init-reboot with own/foreign/gateway/broadcast/out-of-pool address, renew)/RELEASE/DECLINE/INFORM x direct/relayed/relayed+option 82; v6: SOLICIT(+rapid commit)/REQUEST/RENEW/REBIND/CONFIRM/RELEASE/DECLINE x IA_NA/IA_PD; time steps across lease expiry and the real cleanup loop.",
         "Trusted: the reference table and net/netip usable-set computation; client identity is the MAC / DUID and a circuit-id identifies one client. Nexus/HTTP-allocator/RADIUS paths of v4 are not driven.",
         "DESIGN.md §5 C02"),
 "C16": ("c16_teardown", "exploration",
         "resource-census monitor over systems composed from bng's own code exactly as cmd/bng does (dhcp.Server + PoolManager + qos/nat managers + loader over real kernel maps + radius.Client against a harness RADIUS server; pppoe.Server on an in-memory socket; SessionTeardown/KeepAliveManager; subscriber.Manager/CoAProcessor), census before establishment, after establishment, after termination and after a second termination; concurrent termination pairs under the Go race detector",
         "Every session type x termination path x establishment prefix cell is enumerated: afterwards the address is back in the pool, lease/session tables and indexes are clean, no fast-path entry (MAC, VLAN pair, circuit-id hash and fixed key) answers, QoS and NAT entries are gone, exactly one Accounting-Stop per Start was issued, bystanders are untouched, and a second or concurrent termination has no further effect (no double release, no second Stop, no two sessions sharing an address).",
         "Trusted: the census readers (kernel map dumps, pool snapshots through read-only hooks) and the scripted RADIUS server. QinQ contexts are injected through a hook because the slow path never sets them; CHAP is not dispatched by the PPPoE server.",
         "DESIGN.md §5 C16"),
}


# Extensions made after the seeding rounds (DESIGN.md §11.8): appended to the level text of each check.
EXT = {
 "C01": " Extended: AllocateWithMAC entry point, lease pools advanced by the allocator's own ticker under testing/synctest with the store echoing local writes, fill/mass-expiry/refill scenarios on 500-4000-unit pools, a three-node PeerPool cluster over an in-memory transport (forwarded paths), hostile subscriber identifiers, placements just outside the range, delegation lengths beyond /64, holders re-asking while a store write fails; a failed release that forgets the holder while the store keeps the record; overlapping calls on one subscriber (releases, re-asks, first asks) from a spin barrier on a long-lived pool, judged at quiescence.",
 "C02": " Extended: DECLINE/RELEASE/REQUEST naming foreign, offered, free and outside addresses, pool-cycling symbols that walk the whole free list, offer-unique clause, pool geometries as a dimension; lease times much longer than the offer hold with several cleanup ticks under a valid lease, re-DISCOVER by lease holders, hardware addresses of 3-16 octets, abandoned offers must lapse.",
 "C03": " Extended: every IP identification/TOS value per pool and reply shape (header arithmetic), near-miss circuit-ids from stations without a binding, hardware addresses of 6-16 octets, circuit-ids longer than the key, replacement of the CPE behind a circuit-id (random and scripted); the fast path configured by bng's own control plane (Server.Start on interfaces with and without a hardware address; refused and further AddPool/RemovePool calls between client exchanges).",
 "C04": " Extended: session-id counter placed at and across its wrap with live low ids in every phase (hook-placed and by real churn), ownership record judged on every PADS; composed link of the real Authenticator, IPCP automaton and address pool (no address allocated, suggested or acknowledged before the session's authentication was accepted).",
 "C05": " Extended as C01, plus conservation across an owner outage of the PeerPool cluster (listed known finding).",
 "C06": " Extended: Option 82 at every inspected offset with trailing sub-options, LPM keys for every prefix length, every keyed entry written by the real writer and looked for by the real program (VLAN pair, circuit-id, MAC, ALG trigger), values written by the real dhcp.Server on an ACK; one long-lived loader with histories of other subscribers before every judged entry, read-back and removal under the derived key, antispoof MAC key end to end over every bit pattern.",
 "C07": " Extended: differential clause 'unbound is other traffic' for antispoof, QoS (incl. installs that failed half-way on a full map) and the DHCP fast path (removed MAC/circuit-id/VLAN entries, near-miss circuit-ids), every DHCP message type with replies allowed only to DISCOVER/REQUEST; a frame that nat44 modifies and passes must carry its complete transport header.",
 "C08": " Extended: per-phase outage schedules with StopSession at every position, graceful-stop-then-restart as a crash point, the DHCP server's own Start/Stop emission incl. renew/rediscover on a lapsed-unswept lease, mass session end through the rate-limited client.",
 "C09": " Extended: stateful handler hammer (51 handler-state pairs primed by the legitimate exchange, hostile packets that pass the identifier gates) and a third pass with every pool/table exhausted.",
 "C10": " Extended: real kernel maps with 'full' and 'read-only' faults at every map write, the log as it is on disk across rotation/retention/restart, every way of configuring public addresses.",
 "C11": " Extended: identifier classes (current/older/non-Configure/never-used) for every reply type, non-matching-reply-discarded and leaves-opened clauses, request-content shapes (repeated/unknown/maximal option lists) with a differential ack-only-acceptable clause; looped-back-link requests (own magic number), acknowledgements of a superseded request that shared the identifier.",
 "C12": " Extended: AllocateWithMAC path, renew under a store fault, lease-mode pools over /30 units, panics of a restored allocator reported as findings.",
 "C13": " Extended: layer C (connection lifecycle through a relay: overlapping, half-open, storms, two standbys behind one address), layer D (faults on each HTTP exchange of a connection attempt), layer E (snapshots held against the live stream, FullSyncInterval variants); layer F (changes between the snapshot handler's table read and its reply, full syncs while the active is quiet).",
 "C14": " Extended: stuck-in-pending/failback-pending clauses, quiescence check at the end of every sequence, scripted operator commands at every offset of every timer window.",
 "C15": " Extended: order-agnostic collection with bounded waits (no assumption that the listener is sequential), overlap workload with held callbacks and bursts.",
 "C16": " Extended: a fault at every resource-programming step of establishment and at every external step of termination (tiny full / read-only kernel maps, refused RADIUS exchanges, refusing allocators), held-point overlap of every pair of termination paths, phases x sweeps under virtual time, shutdown at every phase and lease age, context-honouring collaborators; sessions ending by their own path while the server shuts down, PPPoE populations sharing a MAC or user name with key-addressed disconnects.",
 "C17": " Extended: exhaustive Add/Remove(/health) membership histories against a set model, random clusters, owner-outage phase, end-to-end serving agreement with adversarial node names in every configuration order and across health/membership changes.",
 "C18": " Extended: accepted bindings stay in force when the binding table (declared type, shrunk) is full, incl. churn.",
 "C19": " Extended: asymmetric and one-direction-unlimited policies, previous control-plane states (same name redefined, override keeping the name, removed), near-miss policy names, accepted policies when the maps are full (maps of the declared type shrunk), the contract across DHCP renewals while traffic flows; control-plane histories on bucket maps that fill at different moments (installs refused half way, removals, bystanders) judged in the kernel after every call.",
 "C20": " Extended: concurrent callers of the VLAN allocator on the same and on different NTEs; concurrent callers of the QinQ mapper judged by existence of an explaining order.",
}

REASON_TODO = "check not yet built in this revision of /verif (planned in DESIGN.md §5); nothing is claimed for it"

def main():
    props = [json.loads(l) for l in open(os.path.join(V, "properties.jsonl"))]
    checks, na = [], []
    for p in props:
        i = p["id"]
        if i in CHECKS and os.path.isdir(os.path.join(V, "harness", CHECKS[i][0])):
            pkg, level, tech, text, note, ref = CHECKS[i]
            checks.append({
                "property_id": i,
                "quick_cmd": f"./check {i} quick",
                "thorough_cmd": f"./check {i} thorough",
                "evidence_file": f"/verif/evidence/{i}.json",
                "replay_cmd_template": f"./check {i} --replay {{path}}",
                "engine": f"harness/{pkg}",
                "level_claimed": {"category": level, "text": text + EXT.get(i, ""), "design_ref": ref},
                "level_note": note,
                "technique": tech,
            })
        else:
            na.append({"property_id": i, "reason": REASON_TODO})
    try:
        hooks = subprocess.run(["git", "-C", "/repo", "log", "--format=%H %s", "--grep=^verif-hook:"], capture_output=True, text=True).stdout.split("\n")
        hooks = [h.split()[0] for h in hooks if h.strip()]
    except Exception:
        hooks = []
    m = {
        "version": 1,
        "setup_cmd": "./setup.sh",
        "hooks": {
            "guard": "verif",
            "enable": "go test -tags verif (the ./check driver builds every harness package with -tags verif against /repo via a replace directive)",
            "baseline_off_cmd": "./baseline.sh",
            "source_commits": hooks,
            "add_only": True,
        },
        "engines": [
            {"name": "vk", "path": "harness/internal/vk", "serves_properties": [c["property_id"] for c in checks], "kind_free_text": "seeded PRNG streams, coverage counters, violation/known-finding matcher, race-log parser, evidence writer"},
            {"name": "pools", "path": "harness/internal/pools", "serves_properties": ["C01", "C05", "C12"], "kind_free_text": "adapters for every pool implementation + shadow ownership model + history generators"},
            {"name": "cplane", "path": "cplane + harness/internal/cplane", "serves_properties": ["C03", "C06", "C07", "C18", "C19"], "kind_free_text": "bpf/*.c compiled natively (ASan+UBSan, guard-page packet arena, scripted clock, map store with sizes from the C declarations) and to BPF for in-kernel BPF_PROG_TEST_RUN"},
        ],
        "checks": checks,
        "not_applicable": na,
        "notes": "Runtime monitoring only: every verdict comes from an oracle observing executions of the real code. Exit 0 held / 1 unlisted violation / 2 inconclusive (below observation floor or harness failure) / 3 build failure. Known findings: known_findings.jsonl.",
    }
    json.dump(m, open(os.path.join(V, "MANIFEST.json"), "w"), indent=1)
    print("checks:", [c["property_id"] for c in checks], "n/a:", len(na))

main()
