#!/bin/bash
# ./sweep.sh [-p N] [tier] [ids...] : run the checks on the unchanged tree and print id, exit status, seconds.
P=3
if [ "$1" = "-p" ]; then P=$2; shift 2; fi
TIER=${1:-quick}; shift
cd "$(dirname "$0")"
IDS=${*:-C01 C02 C03 C04 C05 C06 C07 C08 C09 C10 C11 C12 C13 C14 C15 C16 C17 C18 C19 C20}
mkdir -p .build/sweep
one() { id=$1; t0=$(date +%s); ./check $id $2 > .build/sweep/$id.$2.seed${VERIF_SEED:-1}.out 2>&1; rc=$?; echo "$id $2 seed=${VERIF_SEED:-1} exit=$rc secs=$(( $(date +%s)-t0 )) viol=$(grep -c '^VIOLATION' .build/sweep/$id.$2.seed${VERIF_SEED:-1}.out) known=$(grep -c '^KNOWN-FINDING' .build/sweep/$id.$2.seed${VERIF_SEED:-1}.out) inconcl=$(grep -c '^INCONCLUSIVE' .build/sweep/$id.$2.seed${VERIF_SEED:-1}.out)"; }
export -f one
printf '%s\n' $IDS | xargs -P $P -I{} bash -c "one {} $TIER"
