#!/bin/bash
# ./seedtest.sh <seeded dir name> <ID> [tier]  : apply the seeded patch to /repo, run the check, undo.
set -u
S=/verif/seeded/$1; ID=$2; TIER=${3:-quick}
cd /repo
if [ -n "$(git status --porcelain --untracked-files=no)" ]; then echo "/repo not clean"; exit 9; fi
if ! git apply --check "$S/patch.diff" 2>/dev/null; then
  if ! git apply --3way "$S/patch.diff" >/dev/null 2>&1; then echo "PATCH-DOES-NOT-APPLY $1"; git checkout -- . ; git reset -q; exit 8; fi
  git reset -q
else
  git apply "$S/patch.diff"
fi
cd /verif
VERIF_EVIDENCE=/tmp/seedtest-evidence-$ID.json ./check $ID $TIER > /tmp/seedtest-$1-$ID.log 2>&1
rc=$?
git -C /repo checkout -- .
echo "seed=$1 check=$ID tier=$TIER exit=$rc"
grep -E '^(VIOLATION|  detail)' /tmp/seedtest-$1-$ID.log | cut -c1-400 | head -8
exit 0
