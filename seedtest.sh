#!/bin/bash
# ./seedtest.sh <seeded dir name> <ID> [tier] : apply the seeded patch to a scratch copy of /repo's HEAD
# (outside /repo and /verif), run the check against that copy, remove the copy. /repo itself is not touched.
set -u
S=/verif/seeded/$1; ID=$2; TIER=${3:-quick}
W=/tmp/seedrepo-$1-$ID
rm -rf "$W"; git -C /repo worktree prune
git -C /repo worktree add -q --detach "$W" HEAD || exit 9
# untracked hook files of checks still under construction are part of the tree being checked
(cd /repo && git ls-files --others --exclude-standard | grep -E 'verif_hooks[a-z0-9_]*\.go$|verif_off\.go$' | while read f; do mkdir -p "$W/$(dirname $f)"; cp "$f" "$W/$f"; done)
cd "$W"
if ! git apply "$S/patch.diff" 2>/dev/null; then
  if ! git apply --3way "$S/patch.diff" >/dev/null 2>&1; then echo "PATCH-DOES-NOT-APPLY $1"; cd /; git -C /repo worktree remove --force "$W"; exit 8; fi
fi
cd /verif
VERIF_REPO=$W VERIF_EVIDENCE=/tmp/seedtest-evidence-$1-$ID.json ./check $ID $TIER > /tmp/seedtest-$1-$ID.log 2>&1
rc=$?
git -C /repo worktree remove --force "$W"
rm -rf "/verif/.build/alt-$(echo "$W" | tr -c 'A-Za-z0-9' _)"
echo "seed=$1 check=$ID tier=$TIER exit=$rc"
grep -E '^(VIOLATION|  detail|BUILD-FAILED)' /tmp/seedtest-$1-$ID.log | cut -c1-400 | head -8
exit 0
