/* SPDX-License-Identifier: (LGPL-2.1 OR BSD-2-Clause) */
#ifndef __BPF_TRACING_H__
#define __BPF_TRACING_H__

/* Scan the ARCH passed in from ARCH env variable (see Makefile) */
#if defined(__TARGET_ARCH_x86)
	#define bpf_target_x86
	#define bpf_target_defined
#elif defined(__TARGET_ARCH_s390)
	#define bpf_target_s390
	#define bpf_target_defined
#elif defined(__TARGET_ARCH_arm)
	#define bpf_target_arm
	#define bpf_target_defined
#elif defined(__TARGET_ARCH_arm64)
	#define bpf_target_arm64
	#define bpf_target_defined
#elif defined(__TARGET_ARCH_mips)
	#define bpf_target_mips
	#define bpf_target_defined
#elif defined(__TARGET_ARCH_powerpc)
	#define bpf_target_powerpc
	#define bpf_target_defined
#elif defined(__TARGET_ARCH_sparc)
	#define bpf_target_sparc
	#define bpf_target_defined
#elif defined(__TARGET_ARCH_riscv)
	#define bpf_target_riscv
	#define bpf_target_defined
#else

/* Fall back to what the compiler says */
#if defined(__x86_64__)
	#define bpf_target_x86
	#define bpf_target_defined
#elif defined(__s390__)
	#define bpf_target_s390
	#define bpf_target_defined
#elif defined(__arm__)
	#define bpf_target_arm
	#define bpf_target_defined
#elif defined(__aarch64__)
	#define bpf_target_arm64
	#define bpf_target_defined
#elif defined(__mips__)
	#define bpf_target_mips
	#define bpf_target_defined
#elif defined(__powerpc__)
	#define bpf_target_powerpc
	#define bpf_target_defined
#elif defined(__sparc__)
	#define bpf_target_sparc
	#define bpf_target_defined
#elif defined(__riscv) && __riscv_xlen == 64
	#define bpf_target_riscv
	#define bpf_target_defined
#endif /* no compiler target */

#endif

#ifndef __BPF_TARGET_MISSING
#define __BPF_TARGET_MISSING "GCC error \"Must specify a BPF target arch via __TARGET_ARCH_xxx\""
#endif

#if defined(bpf_target_x86)

#if defined(__KERNEL__) || defined(__VMLINUX_H__)

#define PT_REGS_PARM1(x) ((x)->di)
#define PT_REGS_PARM2(x) ((x)->si)
#define PT_REGS_PARM3(x) ((x)->dx)
#define PT_REGS_PARM4(x) ((x)->cx)
#define PT_REGS_PARM5(x) ((x)->r8)
#define PT_REGS_RET(x) ((x)->sp)
#define PT_REGS_FP(x) ((x)->bp)
#define PT_REGS_RC(x) ((x)->ax)
#define PT_REGS_SP(x) ((x)->sp)
#define PT_REGS_IP(x) ((x)->ip)

#define PT_REGS_PARM1_CORE(x) BPF_CORE_READ((x), di)
#define PT_REGS_PARM2_CORE(x) BPF_CORE_READ((x), si)
#define PT_REGS_PARM3_CORE(x) BPF_CORE_READ((x), dx)
#define PT_REGS_PARM4_CORE(x) BPF_CORE_READ((x), cx)
#define PT_REGS_PARM5_CORE(x) BPF_CORE_READ((x), r8)
#define PT_REGS_RET_CORE(x) BPF_CORE_READ((x), sp)
#define PT_REGS_FP_CORE(x) BPF_CORE_READ((x), bp)
#define PT_REGS_RC_CORE(x) BPF_CORE_READ((x), ax)
#define PT_REGS_SP_CORE(x) BPF_CORE_READ((x), sp)
#define PT_REGS_IP_CORE(x) BPF_CORE_READ((x), ip)

#else

#ifdef __i386__
/* i386 kernel is built with -mregparm=3 */
#define PT_REGS_PARM1(x) ((x)->eax)
#define PT_REGS_PARM2(x) ((x)->edx)
#define PT_REGS_PARM3(x) ((x)->ecx)
#define PT_REGS_PARM4(x) 0
#define PT_REGS_PARM5(x) 0
#define PT_REGS_RET(x) ((x)->esp)
#define PT_REGS_FP(x) ((x)->ebp)
#define PT_REGS_RC(x) ((x)->eax)
#define PT_REGS_SP(x) ((x)->esp)
#define PT_REGS_IP(x) ((x)->eip)

#define PT_REGS_PARM1_CORE(x) BPF_CORE_READ((x), eax)
#define PT_REGS_PARM2_CORE(x) BPF_CORE_READ((x), edx)
#define PT_REGS_PARM3_CORE(x) BPF_CORE_READ((x), ecx)
#define PT_REGS_PARM4_CORE(x) 0
#define PT_REGS_PARM5_CORE(x) 0
#define PT_REGS_RET_CORE(x) BPF_CORE_READ((x), esp)
#define PT_REGS_FP_CORE(x) BPF_CORE_READ((x), ebp)
#define PT_REGS_RC_CORE(x) BPF_CORE_READ((x), eax)
#define PT_REGS_SP_CORE(x) BPF_CORE_READ((x), esp)
#define PT_REGS_IP_CORE(x) BPF_CORE_READ((x), eip)

#else

#define PT_REGS_PARM1(x) ((x)->rdi)
#define PT_REGS_PARM2(x) ((x)->rsi)
#define PT_REGS_PARM3(x) ((x)->rdx)
#define PT_REGS_PARM4(x) ((x)->rcx)
#define PT_REGS_PARM5(x) ((x)->r8)
#define PT_REGS_RET(x) ((x)->rsp)
#define PT_REGS_FP(x) ((x)->rbp)
#define PT_REGS_RC(x) ((x)->rax)
#define PT_REGS_SP(x) ((x)->rsp)
#define PT_REGS_IP(x) ((x)->rip)

#define PT_REGS_PARM1_CORE(x) BPF_CORE_READ((x), rdi)
#define PT_REGS_PARM2_CORE(x) BPF_CORE_READ((x), rsi)
#define PT_REGS_PARM3_CORE(x) BPF_CORE_READ((x), rdx)
#define PT_REGS_PARM4_CORE(x) BPF_CORE_READ((x), rcx)
#define PT_REGS_PARM5_CORE(x) BPF_CORE_READ((x), r8)
#define PT_REGS_RET_CORE(x) BPF_CORE_READ((x), rsp)
#define PT_REGS_FP_CORE(x) BPF_CORE_READ((x), rbp)
#define PT_REGS_RC_CORE(x) BPF_CORE_READ((x), rax)
#define PT_REGS_SP_CORE(x) BPF_CORE_READ((x), rsp)
#define PT_REGS_IP_CORE(x) BPF_CORE_READ((x), rip)

#endif
#endif

#elif defined(bpf_target_s390)

/* s390 provides user_pt_regs instead of struct pt_regs to userspace */
struct pt_regs;
#define PT_REGS_S390 const volatile user_pt_regs
#define PT_REGS_PARM1(x) (((PT_REGS_S390 *)(x))->gprs[2])
#define PT_REGS_PARM2(x) (((PT_REGS_S390 *)(x))->gprs[3])
#define PT_REGS_PARM3(x) (((PT_REGS_S390 *)(x))->gprs[4])
#define PT_REGS_PARM4(x) (((PT_REGS_S390 *)(x))->gprs[5])
#define PT_REGS_PARM5(x) (((PT_REGS_S390 *)(x))->gprs[6])
#define PT_REGS_RET(x) (((PT_REGS_S390 *)(x))->gprs[14])
/* Works only with CONFIG_FRAME_POINTER */
#define PT_REGS_FP(x) (((PT_REGS_S390 *)(x))->gprs[11])
#define PT_REGS_RC(x) (((PT_REGS_S390 *)(x))->gprs[2])
#define PT_REGS_SP(x) (((PT_REGS_S390 *)(x))->gprs[15])
#define PT_REGS_IP(x) (((PT_REGS_S390 *)(x))->psw.addr)

#define PT_REGS_PARM1_CORE(x) BPF_CORE_READ((PT_REGS_S390 *)(x), gprs[2])
#define PT_REGS_PARM2_CORE(x) BPF_CORE_READ((PT_REGS_S390 *)(x), gprs[3])
#define PT_REGS_PARM3_CORE(x) BPF_CORE_READ((PT_REGS_S390 *)(x), gprs[4])
#define PT_REGS_PARM4_CORE(x) BPF_CORE_READ((PT_REGS_S390 *)(x), gprs[5])
#define PT_REGS_PARM5_CORE(x) BPF_CORE_READ((PT_REGS_S390 *)(x), gprs[6])
#define PT_REGS_RET_CORE(x) BPF_CORE_READ((PT_REGS_S390 *)(x), gprs[14])
#define PT_REGS_FP_CORE(x) BPF_CORE_READ((PT_REGS_S390 *)(x), gprs[11])
#define PT_REGS_RC_CORE(x) BPF_CORE_READ((PT_REGS_S390 *)(x), gprs[2])
#define PT_REGS_SP_CORE(x) BPF_CORE_READ((PT_REGS_S390 *)(x), gprs[15])
#define PT_REGS_IP_CORE(x) BPF_CORE_READ((PT_REGS_S390 *)(x), psw.addr)

#elif defined(bpf_target_arm)

#define PT_REGS_PARM1(x) ((x)->uregs[0])
#define PT_REGS_PARM2(x) ((x)->uregs[1])
#define PT_REGS_PARM3(x) ((x)->uregs[2])
#define PT_REGS_PARM4(x) ((x)->uregs[3])
#define PT_REGS_PARM5(x) ((x)->uregs[4])
#define PT_REGS_RET(x) ((x)->uregs[14])
#define PT_REGS_FP(x) ((x)->uregs[11]) /* Works only with CONFIG_FRAME_POINTER */
#define PT_REGS_RC(x) ((x)->uregs[0])
#define PT_REGS_SP(x) ((x)->uregs[13])
#define PT_REGS_IP(x) ((x)->uregs[12])

#define PT_REGS_PARM1_CORE(x) BPF_CORE_READ((x), uregs[0])
#define PT_REGS_PARM2_CORE(x) BPF_CORE_READ((x), uregs[1])
#define PT_REGS_PARM3_CORE(x) BPF_CORE_READ((x), uregs[2])
#define PT_REGS_PARM4_CORE(x) BPF_CORE_READ((x), uregs[3])
#define PT_REGS_PARM5_CORE(x) BPF_CORE_READ((x), uregs[4])
#define PT_REGS_RET_CORE(x) BPF_CORE_READ((x), uregs[14])
#define PT_REGS_FP_CORE(x) BPF_CORE_READ((x), uregs[11])
#define PT_REGS_RC_CORE(x) BPF_CORE_READ((x), uregs[0])
#define PT_REGS_SP_CORE(x) BPF_CORE_READ((x), uregs[13])
#define PT_REGS_IP_CORE(x) BPF_CORE_READ((x), uregs[12])

#elif defined(bpf_target_arm64)

/* arm64 provides struct user_pt_regs instead of struct pt_regs to userspace */
struct pt_regs;
#define PT_REGS_ARM64 const volatile struct user_pt_regs
#define PT_REGS_PARM1(x) (((PT_REGS_ARM64 *)(x))->regs[0])
#define PT_REGS_PARM2(x) (((PT_REGS_ARM64 *)(x))->regs[1])
#define PT_REGS_PARM3(x) (((PT_REGS_ARM64 *)(x))->regs[2])
#define PT_REGS_PARM4(x) (((PT_REGS_ARM64 *)(x))->regs[3])
#define PT_REGS_PARM5(x) (((PT_REGS_ARM64 *)(x))->regs[4])
#define PT_REGS_RET(x) (((PT_REGS_ARM64 *)(x))->regs[30])
/* Works only with CONFIG_FRAME_POINTER */
#define PT_REGS_FP(x) (((PT_REGS_ARM64 *)(x))->regs[29])
#define PT_REGS_RC(x) (((PT_REGS_ARM64 *)(x))->regs[0])
#define PT_REGS_SP(x) (((PT_REGS_ARM64 *)(x))->sp)
#define PT_REGS_IP(x) (((PT_REGS_ARM64 *)(x))->pc)

#define PT_REGS_PARM1_CORE(x) BPF_CORE_READ((PT_REGS_ARM64 *)(x), regs[0])
#define PT_REGS_PARM2_CORE(x) BPF_CORE_READ((PT_REGS_ARM64 *)(x), regs[1])
#define PT_REGS_PARM3_CORE(x) BPF_CORE_READ((PT_REGS_ARM64 *)(x), regs[2])
#define PT_REGS_PARM4_CORE(x) BPF_CORE_READ((PT_REGS_ARM64 *)(x), regs[3])
#define PT_REGS_PARM5_CORE(x) BPF_CORE_READ((PT_REGS_ARM64 *)(x), regs[4])
#define PT_REGS_RET_CORE(x) BPF_CORE_READ((PT_REGS_ARM64 *)(x), regs[30])
#define PT_REGS_FP_CORE(x) BPF_CORE_READ((PT_REGS_ARM64 *)(x), regs[29])
#define PT_REGS_RC_CORE(x) BPF_CORE_READ((PT_REGS_ARM64 *)(x), regs[0])
#define PT_REGS_SP_CORE(x) BPF_CORE_READ((PT_REGS_ARM64 *)(x), sp)
#define PT_REGS_IP_CORE(x) BPF_CORE_READ((PT_REGS_ARM64 *)(x), pc)

#elif defined(bpf_target_mips)

#define PT_REGS_PARM1(x) ((x)->regs[4])
#define PT_REGS_PARM2(x) ((x)->regs[5])
#define PT_REGS_PARM3(x) ((x)->regs[6])
#define PT_REGS_PARM4(x) ((x)->regs[7])
#define PT_REGS_PARM5(x) ((x)->regs[8])
#define PT_REGS_RET(x) ((x)->regs[31])
#define PT_REGS_FP(x) ((x)->regs[30]) /* Works only with CONFIG_FRAME_POINTER */
#define PT_REGS_RC(x) ((x)->regs[2])
#define PT_REGS_SP(x) ((x)->regs[29])
#define PT_REGS_IP(x) ((x)->cp0_epc)

#define PT_REGS_PARM1_CORE(x) BPF_CORE_READ((x), regs[4])
#define PT_REGS_PARM2_CORE(x) BPF_CORE_READ((x), regs[5])
#define PT_REGS_PARM3_CORE(x) BPF_CORE_READ((x), regs[6])
#define PT_REGS_PARM4_CORE(x) BPF_CORE_READ((x), regs[7])
#define PT_REGS_PARM5_CORE(x) BPF_CORE_READ((x), regs[8])
#define PT_REGS_RET_CORE(x) BPF_CORE_READ((x), regs[31])
#define PT_REGS_FP_CORE(x) BPF_CORE_READ((x), regs[30])
#define PT_REGS_RC_CORE(x) BPF_CORE_READ((x), regs[2])
#define PT_REGS_SP_CORE(x) BPF_CORE_READ((x), regs[29])
#define PT_REGS_IP_CORE(x) BPF_CORE_READ((x), cp0_epc)

#elif defined(bpf_target_powerpc)

#define PT_REGS_PARM1(x) ((x)->gpr[3])
#define PT_REGS_PARM2(x) ((x)->gpr[4])
#define PT_REGS_PARM3(x) ((x)->gpr[5])
#define PT_REGS_PARM4(x) ((x)->gpr[6])
#define PT_REGS_PARM5(x) ((x)->gpr[7])
#define PT_REGS_RC(x) ((x)->gpr[3])
#define PT_REGS_SP(x) ((x)->sp)
#define PT_REGS_IP(x) ((x)->nip)

#define PT_REGS_PARM1_CORE(x) BPF_CORE_READ((x), gpr[3])
#define PT_REGS_PARM2_CORE(x) BPF_CORE_READ((x), gpr[4])
#define PT_REGS_PARM3_CORE(x) BPF_CORE_READ((x), gpr[5])
#define PT_REGS_PARM4_CORE(x) BPF_CORE_READ((x), gpr[6])
#define PT_REGS_PARM5_CORE(x) BPF_CORE_READ((x), gpr[7])
#define PT_REGS_RC_CORE(x) BPF_CORE_READ((x), gpr[3])
#define PT_REGS_SP_CORE(x) BPF_CORE_READ((x), sp)
#define PT_REGS_IP_CORE(x) BPF_CORE_READ((x), nip)

#elif defined(bpf_target_sparc)

#define PT_REGS_PARM1(x) ((x)->u_regs[UREG_I0])
#define PT_REGS_PARM2(x) ((x)->u_regs[UREG_I1])
#define PT_REGS_PARM3(x) ((x)->u_regs[UREG_I2])
#define PT_REGS_PARM4(x) ((x)->u_regs[UREG_I3])
#define PT_REGS_PARM5(x) ((x)->u_regs[UREG_I4])
#define PT_REGS_RET(x) ((x)->u_regs[UREG_I7])
#define PT_REGS_RC(x) ((x)->u_regs[UREG_I0])
#define PT_REGS_SP(x) ((x)->u_regs[UREG_FP])

#define PT_REGS_PARM1_CORE(x) BPF_CORE_READ((x), u_regs[UREG_I0])
#define PT_REGS_PARM2_CORE(x) BPF_CORE_READ((x), u_regs[UREG_I1])
#define PT_REGS_PARM3_CORE(x) BPF_CORE_READ((x), u_regs[UREG_I2])
#define PT_REGS_PARM4_CORE(x) BPF_CORE_READ((x), u_regs[UREG_I3])
#define PT_REGS_PARM5_CORE(x) BPF_CORE_READ((x), u_regs[UREG_I4])
#define PT_REGS_RET_CORE(x) BPF_CORE_READ((x), u_regs[UREG_I7])
#define PT_REGS_RC_CORE(x) BPF_CORE_READ((x), u_regs[UREG_I0])
#define PT_REGS_SP_CORE(x) BPF_CORE_READ((x), u_regs[UREG_FP])

/* Should this also be a bpf_target check for the sparc case? */
#if defined(__arch64__)
#define PT_REGS_IP(x) ((x)->tpc)
#define PT_REGS_IP_CORE(x) BPF_CORE_READ((x), tpc)
#else
#define PT_REGS_IP(x) ((x)->pc)
#define PT_REGS_IP_CORE(x) BPF_CORE_READ((x), pc)
#endif

#elif defined(bpf_target_riscv)

struct pt_regs;
#define PT_REGS_RV const volatile struct user_regs_struct
#define PT_REGS_PARM1(x) (((PT_REGS_RV *)(x))->a0)
#define PT_REGS_PARM2(x) (((PT_REGS_RV *)(x))->a1)
#define PT_REGS_PARM3(x) (((PT_REGS_RV *)(x))->a2)
#define PT_REGS_PARM4(x) (((PT_REGS_RV *)(x))->a3)
#define PT_REGS_PARM5(x) (((PT_REGS_RV *)(x))->a4)
#define PT_REGS_RET(x) (((PT_REGS_RV *)(x))->ra)
#define PT_REGS_FP(x) (((PT_REGS_RV *)(x))->s5)
#define PT_REGS_RC(x) (((PT_REGS_RV *)(x))->a5)
#define PT_REGS_SP(x) (((PT_REGS_RV *)(x))->sp)
#define PT_REGS_IP(x) (((PT_REGS_RV *)(x))->epc)

#define PT_REGS_PARM1_CORE(x) BPF_CORE_READ((PT_REGS_RV *)(x), a0)
#define PT_REGS_PARM2_CORE(x) BPF_CORE_READ((PT_REGS_RV *)(x), a1)
#define PT_REGS_PARM3_CORE(x) BPF_CORE_READ((PT_REGS_RV *)(x), a2)
#define PT_REGS_PARM4_CORE(x) BPF_CORE_READ((PT_REGS_RV *)(x), a3)
#define PT_REGS_PARM5_CORE(x) BPF_CORE_READ((PT_REGS_RV *)(x), a4)
#define PT_REGS_RET_CORE(x) BPF_CORE_READ((PT_REGS_RV *)(x), ra)
#define PT_REGS_FP_CORE(x) BPF_CORE_READ((PT_REGS_RV *)(x), fp)
#define PT_REGS_RC_CORE(x) BPF_CORE_READ((PT_REGS_RV *)(x), a5)
#define PT_REGS_SP_CORE(x) BPF_CORE_READ((PT_REGS_RV *)(x), sp)
#define PT_REGS_IP_CORE(x) BPF_CORE_READ((PT_REGS_RV *)(x), epc)

#endif

#if defined(bpf_target_powerpc)
#define BPF_KPROBE_READ_RET_IP(ip, ctx)		({ (ip) = (ctx)->link; })
#define BPF_KRETPROBE_READ_RET_IP		BPF_KPROBE_READ_RET_IP
#elif defined(bpf_target_sparc)
#define BPF_KPROBE_READ_RET_IP(ip, ctx)		({ (ip) = PT_REGS_RET(ctx); })
#define BPF_KRETPROBE_READ_RET_IP		BPF_KPROBE_READ_RET_IP
#elif defined(bpf_target_defined)
#define BPF_KPROBE_READ_RET_IP(ip, ctx)					    \
	({ bpf_probe_read_kernel(&(ip), sizeof(ip), (void *)PT_REGS_RET(ctx)); })
#define BPF_KRETPROBE_READ_RET_IP(ip, ctx)				    \
	({ bpf_probe_read_kernel(&(ip), sizeof(ip),			    \
			  (void *)(PT_REGS_FP(ctx) + sizeof(ip))); })
#endif

#if !defined(bpf_target_defined)

#define PT_REGS_PARM1(x) ({ _Pragma(__BPF_TARGET_MISSING); 0l; })
#define PT_REGS_PARM2(x) ({ _Pragma(__BPF_TARGET_MISSING); 0l; })
#define PT_REGS_PARM3(x) ({ _Pragma(__BPF_TARGET_MISSING); 0l; })
#define PT_REGS_PARM4(x) ({ _Pragma(__BPF_TARGET_MISSING); 0l; })
#define PT_REGS_PARM5(x) ({ _Pragma(__BPF_TARGET_MISSING); 0l; })
#define PT_REGS_RET(x) ({ _Pragma(__BPF_TARGET_MISSING); 0l; })
#define PT_REGS_FP(x) ({ _Pragma(__BPF_TARGET_MISSING); 0l; })
#define PT_REGS_RC(x) ({ _Pragma(__BPF_TARGET_MISSING); 0l; })
#define PT_REGS_SP(x) ({ _Pragma(__BPF_TARGET_MISSING); 0l; })
#define PT_REGS_IP(x) ({ _Pragma(__BPF_TARGET_MISSING); 0l; })

#define PT_REGS_PARM1_CORE(x) ({ _Pragma(__BPF_TARGET_MISSING); 0l; })
#define PT_REGS_PARM2_CORE(x) ({ _Pragma(__BPF_TARGET_MISSING); 0l; })
#define PT_REGS_PARM3_CORE(x) ({ _Pragma(__BPF_TARGET_MISSING); 0l; })
#define PT_REGS_PARM4_CORE(x) ({ _Pragma(__BPF_TARGET_MISSING); 0l; })
#define PT_REGS_PARM5_CORE(x) ({ _Pragma(__BPF_TARGET_MISSING); 0l; })
#define PT_REGS_RET_CORE(x) ({ _Pragma(__BPF_TARGET_MISSING); 0l; })
#define PT_REGS_FP_CORE(x) ({ _Pragma(__BPF_TARGET_MISSING); 0l; })
#define PT_REGS_RC_CORE(x) ({ _Pragma(__BPF_TARGET_MISSING); 0l; })
#define PT_REGS_SP_CORE(x) ({ _Pragma(__BPF_TARGET_MISSING); 0l; })
#define PT_REGS_IP_CORE(x) ({ _Pragma(__BPF_TARGET_MISSING); 0l; })

#define BPF_KPROBE_READ_RET_IP(ip, ctx) ({ _Pragma(__BPF_TARGET_MISSING); 0l; })
#define BPF_KRETPROBE_READ_RET_IP(ip, ctx) ({ _Pragma(__BPF_TARGET_MISSING); 0l; })

#endif /* !defined(bpf_target_defined) */

#ifndef ___bpf_concat
#define ___bpf_concat(a, b) a ## b
#endif
#ifndef ___bpf_apply
#define ___bpf_apply(fn, n) ___bpf_concat(fn, n)
#endif
#ifndef ___bpf_nth
#define ___bpf_nth(_, _1, _2, _3, _4, _5, _6, _7, _8, _9, _a, _b, _c, N, ...) N
#endif
#ifndef ___bpf_narg
#define ___bpf_narg(...) \
	___bpf_nth(_, ##__VA_ARGS__, 12, 11, 10, 9, 8, 7, 6, 5, 4, 3, 2, 1, 0)
#endif

#define ___bpf_ctx_cast0() ctx
#define ___bpf_ctx_cast1(x) ___bpf_ctx_cast0(), (void *)ctx[0]
#define ___bpf_ctx_cast2(x, args...) ___bpf_ctx_cast1(args), (void *)ctx[1]
#define ___bpf_ctx_cast3(x, args...) ___bpf_ctx_cast2(args), (void *)ctx[2]
#define ___bpf_ctx_cast4(x, args...) ___bpf_ctx_cast3(args), (void *)ctx[3]
#define ___bpf_ctx_cast5(x, args...) ___bpf_ctx_cast4(args), (void *)ctx[4]
#define ___bpf_ctx_cast6(x, args...) ___bpf_ctx_cast5(args), (void *)ctx[5]
#define ___bpf_ctx_cast7(x, args...) ___bpf_ctx_cast6(args), (void *)ctx[6]
#define ___bpf_ctx_cast8(x, args...) ___bpf_ctx_cast7(args), (void *)ctx[7]
#define ___bpf_ctx_cast9(x, args...) ___bpf_ctx_cast8(args), (void *)ctx[8]
#define ___bpf_ctx_cast10(x, args...) ___bpf_ctx_cast9(args), (void *)ctx[9]
#define ___bpf_ctx_cast11(x, args...) ___bpf_ctx_cast10(args), (void *)ctx[10]
#define ___bpf_ctx_cast12(x, args...) ___bpf_ctx_cast11(args), (void *)ctx[11]
#define ___bpf_ctx_cast(args...) \
	___bpf_apply(___bpf_ctx_cast, ___bpf_narg(args))(args)

/*
 * BPF_PROG is a convenience wrapper for generic tp_btf/fentry/fexit and
 * similar kinds of BPF programs, that accept input arguments as a single
 * pointer to untyped u64 array, where each u64 can actually be a typed
 * pointer or integer of different size. Instead of requring user to write
 * manual casts and work with array elements by index, BPF_PROG macro
 * allows user to declare a list of named and typed input arguments in the
 * same syntax as for normal C function. All the casting is hidden and
 * performed transparently, while user code can just assume working with
 * function arguments of specified type and name.
 *
 * Original raw context argument is preserved as well as 'ctx' argument.
 * This is useful when using BPF helpers that expect original context
 * as one of the parameters (e.g., for bpf_perf_event_output()).
 */
#define BPF_PROG(name, args...)						    \
name(unsigned long long *ctx);						    \
static __attribute__((always_inline)) typeof(name(0))			    \
____##name(unsigned long long *ctx, ##args);				    \
typeof(name(0)) name(unsigned long long *ctx)				    \
{									    \
	_Pragma("GCC diagnostic push")					    \
	_Pragma("GCC diagnostic ignored \"-Wint-conversion\"")		    \
	return ____##name(___bpf_ctx_cast(args));			    \
	_Pragma("GCC diagnostic pop")					    \
}									    \
static __attribute__((always_inline)) typeof(name(0))			    \
____##name(unsigned long long *ctx, ##args)

struct pt_regs;

#define ___bpf_kprobe_args0() ctx
#define ___bpf_kprobe_args1(x) \
	___bpf_kprobe_args0(), (void *)PT_REGS_PARM1(ctx)
#define ___bpf_kprobe_args2(x, args...) \
	___bpf_kprobe_args1(args), (void *)PT_REGS_PARM2(ctx)
#define ___bpf_kprobe_args3(x, args...) \
	___bpf_kprobe_args2(args), (void *)PT_REGS_PARM3(ctx)
#define ___bpf_kprobe_args4(x, args...) \
	___bpf_kprobe_args3(args), (void *)PT_REGS_PARM4(ctx)
#define ___bpf_kprobe_args5(x, args...) \
	___bpf_kprobe_args4(args), (void *)PT_REGS_PARM5(ctx)
#define ___bpf_kprobe_args(args...) \
	___bpf_apply(___bpf_kprobe_args, ___bpf_narg(args))(args)

/*
 * BPF_KPROBE serves the same purpose for kprobes as BPF_PROG for
 * tp_btf/fentry/fexit BPF programs. It hides the underlying platform-specific
 * low-level way of getting kprobe input arguments from struct pt_regs, and
 * provides a familiar typed and named function arguments syntax and
 * semantics of accessing kprobe input paremeters.
 *
 * Original struct pt_regs* context is preserved as 'ctx' argument. This might
 * be necessary when using BPF helpers like bpf_perf_event_output().
 */
#define BPF_KPROBE(name, args...)					    \
name(struct pt_regs *ctx);						    \
static __attribute__((always_inline)) typeof(name(0))			    \
____##name(struct pt_regs *ctx, ##args);				    \
typeof(name(0)) name(struct pt_regs *ctx)				    \
{									    \
	_Pragma("GCC diagnostic push")					    \
	_Pragma("GCC diagnostic ignored \"-Wint-conversion\"")		    \
	return ____##name(___bpf_kprobe_args(args));			    \
	_Pragma("GCC diagnostic pop")					    \
}									    \
static __attribute__((always_inline)) typeof(name(0))			    \
____##name(struct pt_regs *ctx, ##args)

#define ___bpf_kretprobe_args0() ctx
#define ___bpf_kretprobe_args1(x) \
	___bpf_kretprobe_args0(), (void *)PT_REGS_RC(ctx)
#define ___bpf_kretprobe_args(args...) \
	___bpf_apply(___bpf_kretprobe_args, ___bpf_narg(args))(args)

/*
 * BPF_KRETPROBE is similar to BPF_KPROBE, except, it only provides optional
 * return value (in addition to `struct pt_regs *ctx`), but no input
 * arguments, because they will be clobbered by the time probed function
 * returns.
 */
#define BPF_KRETPROBE(name, args...)					    \
name(struct pt_regs *ctx);						    \
static __attribute__((always_inline)) typeof(name(0))			    \
____##name(struct pt_regs *ctx, ##args);				    \
typeof(name(0)) name(struct pt_regs *ctx)				    \
{									    \
	_Pragma("GCC diagnostic push")					    \
	_Pragma("GCC diagnostic ignored \"-Wint-conversion\"")		    \
	return ____##name(___bpf_kretprobe_args(args));			    \
	_Pragma("GCC diagnostic pop")					    \
}									    \
static __always_inline typeof(name(0)) ____##name(struct pt_regs *ctx, ##args)

#endif
