/* native-harness wrapper around the UAPI header: the program context structs get
 * pointer-width data/data_end so that `(void *)(long)ctx->data` works in a 64-bit process. */
#ifndef VERIF_SHIM_LINUX_BPF_H
#define VERIF_SHIM_LINUX_BPF_H
#define xdp_md xdp_md_uapi
#define __sk_buff __sk_buff_uapi
#include_next <linux/bpf.h>
#undef xdp_md
#undef __sk_buff
struct xdp_md {
	__u64 data;
	__u64 data_end;
	__u64 data_meta;
	__u32 ingress_ifindex;
	__u32 rx_queue_index;
	__u32 egress_ifindex;
};
struct __sk_buff {
	__u32 len;
	__u32 pkt_type;
	__u32 mark;
	__u32 queue_mapping;
	__u32 protocol;
	__u32 vlan_present;
	__u32 vlan_tci;
	__u32 vlan_proto;
	__u32 priority;
	__u32 ingress_ifindex;
	__u32 ifindex;
	__u32 tc_index;
	__u32 cb[5];
	__u32 hash;
	__u32 tc_classid;
	__u64 data;
	__u64 data_end;
	__u32 napi_id;
	__u32 family;
	__u32 data_meta;
	__u32 gso_segs;
	__u32 gso_size;
	__u32 wire_len;
};
#endif
