#ifndef VERIF_SHIM_BPF_ENDIAN_H
#define VERIF_SHIM_BPF_ENDIAN_H
#include <linux/types.h>
#if __BYTE_ORDER__ == __ORDER_LITTLE_ENDIAN__
#define bpf_htons(x) ((__u16)__builtin_bswap16((__u16)(x)))
#define bpf_ntohs(x) ((__u16)__builtin_bswap16((__u16)(x)))
#define bpf_htonl(x) ((__u32)__builtin_bswap32((__u32)(x)))
#define bpf_ntohl(x) ((__u32)__builtin_bswap32((__u32)(x)))
#define bpf_cpu_to_be64(x) ((__u64)__builtin_bswap64((__u64)(x)))
#define bpf_be64_to_cpu(x) ((__u64)__builtin_bswap64((__u64)(x)))
#else
#define bpf_htons(x) (x)
#define bpf_ntohs(x) (x)
#define bpf_htonl(x) (x)
#define bpf_ntohl(x) (x)
#define bpf_cpu_to_be64(x) (x)
#define bpf_be64_to_cpu(x) (x)
#endif
#endif
