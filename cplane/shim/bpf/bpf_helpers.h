/* native-harness replacement for libbpf's bpf_helpers.h: helpers are ordinary functions
 * implemented by bpfrun.c; map definitions keep libbpf's BTF-style encoding so that
 * key/value sizes come from the C declarations themselves. */
#ifndef VERIF_SHIM_BPF_HELPERS_H
#define VERIF_SHIM_BPF_HELPERS_H
#include <linux/types.h>
#ifndef NULL
#define NULL ((void *)0)
#endif
#define SEC(name) __attribute__((section("verif_" name "_"), used))
#undef SEC
#define SEC(name) __attribute__((used))
#define __uint(name, val) int (*name)[val]
#define __type(name, val) typeof(val) *name
#define __array(name, val) typeof(val) *name[]
#ifndef __always_inline
#define __always_inline inline __attribute__((always_inline))
#endif
#ifndef __noinline
#define __noinline __attribute__((noinline))
#endif
#define __weak __attribute__((weak))
#define __ksym
#define __kconfig
#ifndef likely
#define likely(x) __builtin_expect(!!(x), 1)
#define unlikely(x) __builtin_expect(!!(x), 0)
#endif
#define bpf_printk(fmt, ...) ((void)0)
void *bpf_map_lookup_elem(void *map, const void *key);
long bpf_map_update_elem(void *map, const void *key, const void *value, __u64 flags);
long bpf_map_delete_elem(void *map, const void *key);
__u64 bpf_ktime_get_ns(void);
long bpf_xdp_adjust_tail(void *ctx, int delta);
long bpf_xdp_adjust_head(void *ctx, int delta);
long bpf_perf_event_output(void *ctx, void *map, __u64 flags, void *data, __u64 size);
void *bpf_ringbuf_reserve(void *ringbuf, __u64 size, __u64 flags);
void bpf_ringbuf_submit(void *data, __u64 flags);
void bpf_ringbuf_discard(void *data, __u64 flags);
long bpf_ringbuf_output(void *ringbuf, void *data, __u64 size, __u64 flags);
__u32 bpf_get_smp_processor_id(void);
__u32 bpf_get_prandom_u32(void);
long bpf_skb_store_bytes(void *skb, __u32 offset, const void *from, __u32 len, __u64 flags);
long bpf_skb_load_bytes(const void *skb, __u32 offset, void *to, __u32 len);
long bpf_l3_csum_replace(void *skb, __u32 offset, __u64 from, __u64 to, __u64 size);
long bpf_l4_csum_replace(void *skb, __u32 offset, __u64 from, __u64 to, __u64 flags);
__s64 bpf_csum_diff(__be32 *from, __u32 from_size, __be32 *to, __u32 to_size, __wsum seed);
long bpf_redirect(__u32 ifindex, __u64 flags);
long bpf_skb_pull_data(void *skb, __u32 len);
#endif
