#!/bin/bash
# Builds, from $VERIF_REPO/bpf (default /repo/bpf), for each program file:
#   $OUT/native/bpfrun_<name>   natively compiled with ASan+UBSan against cplane/shim + bpfrun.c  (E5)
#   $OUT/bpf/<name>.o           -target bpf object for the in-kernel run                          (E6)
# A content hash of all inputs makes repeated calls cheap; any change to bpf/ or cplane/ rebuilds.
set -eu
HERE=$(cd "$(dirname "$0")" && pwd)
REPO=${VERIF_REPO:-/repo}
tag=$(echo "$REPO" | tr -c 'A-Za-z0-9' _)
OUT=$HERE/../.build/cplane-$tag
mkdir -p "$OUT/native" "$OUT/bpf" "$OUT/gen"
sum=$(cat "$REPO"/bpf/*.c "$REPO"/bpf/*.h "$HERE"/bpfrun.c "$HERE"/gen_wrap.py "$HERE"/build.sh "$HERE"/shim/*/*.h | sha256sum | cut -d' ' -f1)
if [ -f "$OUT/stamp" ] && [ "$(cat "$OUT/stamp")" = "$sum" ]; then echo "cplane up to date ($OUT)"; exit 0; fi
rm -f "$OUT/stamp"
ARCHINC=/usr/include/$(uname -m)-linux-gnu
for f in dhcp_fastpath antispoof qos_ratelimit nat44; do
  python3 "$HERE/gen_wrap.py" "$REPO/bpf/$f.c" "$OUT/gen/${f}_wrap.c"
  clang -O1 -g -fno-omit-frame-pointer -fsanitize=address,undefined -fno-sanitize=alignment -fno-sanitize-recover=all \
    -Wno-unused-function -Wno-unknown-attributes -Wno-pass-failed -Wno-address-of-packed-member \
    -I"$HERE/shim" -I"$REPO/bpf" -I"$ARCHINC" \
    "$OUT/gen/${f}_wrap.c" "$HERE/bpfrun.c" -o "$OUT/native/bpfrun_$f"
  clang -O2 -g -Wall -Wno-pass-failed -Wno-unused-function -target bpf -D__TARGET_ARCH_x86 \
    -I"$HERE/khdr" -I"$ARCHINC" -I"$REPO/bpf" -c "$REPO/bpf/$f.c" -o "$OUT/bpf/$f.o"
done
echo "$sum" > "$OUT/stamp"
echo "cplane built in $OUT"
