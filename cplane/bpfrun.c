/* bpfrun: native execution harness for the programs under bpf/ (engine E5).
 *
 * One binary per program file: <file>_wrap.c (generated) includes the program source compiled
 * against cplane/shim and registers its maps (sizes taken from the C declarations) and programs.
 * This file provides the helpers, map store, scripted clock, guard-page packet arena and a
 * length-prefixed command protocol on stdin/stdout. Built with ASan+UBSan; every report is fatal.
 */
#define _GNU_SOURCE
#include <errno.h>
#include <signal.h>
#include <stdint.h>
#include <stdio.h>
#include <stdlib.h>
#include <string.h>
#include <sys/mman.h>
#include <unistd.h>
#include <linux/bpf.h>

typedef unsigned char u8;
typedef uint32_t u32;
typedef uint64_t u64;

/* ------------------------------------------------------------------ registry */
struct ent { u8 *key; u8 *val; };
struct vmap {
	const char *name; void *addr; int type; int ksz, vsz, max;
	struct ent *ents; int n, cap;
	u8 **arr; /* array types: lazily allocated zero values */
};
struct vprog { const char *name; int kind; /* 0 xdp, 1 tc */ int (*fn)(void *); };
static struct vmap maps[64]; static int nmaps;
static struct vprog progs[16]; static int nprogs;

void verif_reg_map(const char *name, void *addr, int type, int ksz, int vsz, int max)
{
	struct vmap *m = &maps[nmaps++];
	memset(m, 0, sizeof(*m));
	m->name = name; m->addr = addr; m->type = type; m->ksz = ksz; m->vsz = vsz; m->max = max;
}
void verif_reg_prog(const char *name, int kind, int (*fn)(void *))
{
	progs[nprogs].name = name; progs[nprogs].kind = kind; progs[nprogs].fn = fn; nprogs++;
}
void verif_register_all(void); /* generated */
struct verif_member { const char *st; const char *member; int off; int size; };
extern const struct verif_member verif_layout[]; /* generated: offsetof/sizeof of every struct in the program file */

static struct vmap *map_by_addr(void *a) { for (int i = 0; i < nmaps; i++) if (maps[i].addr == a) return &maps[i]; return NULL; }
static struct vmap *map_by_name(const char *n) { for (int i = 0; i < nmaps; i++) if (!strcmp(maps[i].name, n)) return &maps[i]; return NULL; }
static int is_array(struct vmap *m) { return m->type == BPF_MAP_TYPE_ARRAY || m->type == BPF_MAP_TYPE_PERCPU_ARRAY; }

/* ------------------------------------------------------------------ access log */
struct logent { const char *map; char op; int hit; u8 key[64]; int klen; };
static struct logent alog[4096]; static int nlog; static int log_on;
static void logop(struct vmap *m, char op, const void *key, int hit)
{
	if (!log_on || nlog >= 4096) return;
	struct logent *e = &alog[nlog++];
	e->map = m->name; e->op = op; e->hit = hit; e->klen = m->ksz > 64 ? 64 : m->ksz;
	if (key && e->klen > 0) memcpy(e->key, key, e->klen); else e->klen = 0;
}
struct evt { const char *map; u8 *data; u32 len; };
static struct evt evts[256]; static int nevt;

/* ------------------------------------------------------------------ map store */
static void *m_lookup(struct vmap *m, const void *key)
{
	if (is_array(m)) {
		u32 idx; memcpy(&idx, key, 4);
		if (idx >= (u32)m->max) return NULL;
		if (!m->arr) m->arr = calloc(m->max > 0 ? m->max : 1, sizeof(u8 *));
		if (!m->arr[idx]) m->arr[idx] = calloc(1, m->vsz ? m->vsz : 1);
		return m->arr[idx];
	}
	if (m->type == BPF_MAP_TYPE_LPM_TRIE) {
		u32 qlen; memcpy(&qlen, key, 4);
		const u8 *qd = (const u8 *)key + 4;
		int best = -1; u32 bestlen = 0;
		for (int i = 0; i < m->n; i++) {
			u32 plen; memcpy(&plen, m->ents[i].key, 4);
			if (plen > qlen) continue;
			const u8 *pd = m->ents[i].key + 4;
			int ok = 1;
			for (u32 b = 0; b < plen; b++) {
				if (((pd[b / 8] >> (7 - b % 8)) & 1) != ((qd[b / 8] >> (7 - b % 8)) & 1)) { ok = 0; break; }
			}
			if (ok && (best < 0 || plen > bestlen)) { best = i; bestlen = plen; }
		}
		return best >= 0 ? m->ents[best].val : NULL;
	}
	for (int i = 0; i < m->n; i++)
		if (!memcmp(m->ents[i].key, key, m->ksz)) return m->ents[i].val;
	return NULL;
}
static long m_update(struct vmap *m, const void *key, const void *val, u64 flags)
{
	if (is_array(m)) {
		u8 *v = m_lookup(m, key);
		if (!v) return -E2BIG;
		if (flags == BPF_NOEXIST) return -EEXIST;
		memcpy(v, val, m->vsz);
		return 0;
	}
	int found = -1;
	for (int i = 0; i < m->n; i++) if (!memcmp(m->ents[i].key, key, m->ksz)) { found = i; break; }
	if (found >= 0) {
		if (flags == BPF_NOEXIST) return -EEXIST;
		memcpy(m->ents[found].val, val, m->vsz);
		return 0;
	}
	if (flags == BPF_EXIST) return -ENOENT;
	if (m->n >= m->max) {
		if (m->type != BPF_MAP_TYPE_LRU_HASH) return -E2BIG;
		free(m->ents[0].key); free(m->ents[0].val);
		memmove(&m->ents[0], &m->ents[1], sizeof(struct ent) * (m->n - 1));
		m->n--;
	}
	if (m->n == m->cap) { m->cap = m->cap ? m->cap * 2 : 16; m->ents = realloc(m->ents, sizeof(struct ent) * m->cap); }
	/* exact-size heap blocks: ASan red zones catch a program that reads or writes past value_size */
	m->ents[m->n].key = malloc(m->ksz ? m->ksz : 1); memcpy(m->ents[m->n].key, key, m->ksz);
	m->ents[m->n].val = malloc(m->vsz ? m->vsz : 1); memcpy(m->ents[m->n].val, val, m->vsz);
	m->n++;
	return 0;
}
static long m_delete(struct vmap *m, const void *key)
{
	if (is_array(m)) return -EINVAL;
	for (int i = 0; i < m->n; i++)
		if (!memcmp(m->ents[i].key, key, m->ksz)) {
			free(m->ents[i].key); free(m->ents[i].val);
			memmove(&m->ents[i], &m->ents[i + 1], sizeof(struct ent) * (m->n - i - 1));
			m->n--;
			return 0;
		}
	return -ENOENT;
}
static void m_reset(struct vmap *m)
{
	for (int i = 0; i < m->n; i++) { free(m->ents[i].key); free(m->ents[i].val); }
	m->n = 0;
	if (m->arr) { for (int i = 0; i < m->max; i++) free(m->arr[i]); free(m->arr); m->arr = NULL; }
}

/* ------------------------------------------------------------------ helpers seen by the programs */
void *bpf_map_lookup_elem(void *map, const void *key)
{
	struct vmap *m = map_by_addr(map);
	if (!m) { fprintf(stderr, "HARNESS: lookup on unregistered map %p\n", map); abort(); }
	void *v = m_lookup(m, key);
	logop(m, 'l', key, v != NULL);
	return v;
}
long bpf_map_update_elem(void *map, const void *key, const void *value, u64 flags)
{
	struct vmap *m = map_by_addr(map);
	if (!m) { fprintf(stderr, "HARNESS: update on unregistered map %p\n", map); abort(); }
	long r = m_update(m, key, value, flags);
	logop(m, 'u', key, r == 0);
	return r;
}
long bpf_map_delete_elem(void *map, const void *key)
{
	struct vmap *m = map_by_addr(map);
	if (!m) { fprintf(stderr, "HARNESS: delete on unregistered map %p\n", map); abort(); }
	long r = m_delete(m, key);
	logop(m, 'd', key, r == 0);
	return r;
}
static u64 clock_script[65536]; static int nclock, clock_pos, clock_calls;
__u64 bpf_ktime_get_ns(void)
{
	clock_calls++;
	if (nclock == 0) return 0;
	u64 v = clock_script[clock_pos < nclock ? clock_pos : nclock - 1];
	if (clock_pos < nclock) clock_pos++;
	return v;
}
__u32 bpf_get_smp_processor_id(void) { return 0; }
static u32 prng_state = 0x12345678;
__u32 bpf_get_prandom_u32(void) { prng_state = prng_state * 1664525u + 1013904223u; return prng_state; }
long bpf_perf_event_output(void *ctx, void *map, u64 flags, void *data, u64 size)
{
	struct vmap *m = map_by_addr(map);
	if (nevt < 256 && m) { evts[nevt].map = m->name; evts[nevt].data = malloc(size ? size : 1); memcpy(evts[nevt].data, data, size); evts[nevt].len = size; nevt++; }
	return 0;
}
struct rbhdr { struct vmap *m; u32 len; u32 magic; };
void *bpf_ringbuf_reserve(void *ringbuf, u64 size, u64 flags)
{
	struct vmap *m = map_by_addr(ringbuf);
	if (!m) return NULL;
	struct rbhdr *h = malloc(sizeof(*h) + size);
	h->m = m; h->len = size; h->magic = 0xb1f0b1f0;
	memset(h + 1, 0, size);
	return h + 1;
}
void bpf_ringbuf_submit(void *data, u64 flags)
{
	struct rbhdr *h = (struct rbhdr *)data - 1;
	if (h->magic != 0xb1f0b1f0) { fprintf(stderr, "HARNESS: ringbuf_submit of foreign pointer\n"); abort(); }
	if (nevt < 256) { evts[nevt].map = h->m->name; evts[nevt].data = malloc(h->len ? h->len : 1); memcpy(evts[nevt].data, data, h->len); evts[nevt].len = h->len; nevt++; }
	free(h);
}
void bpf_ringbuf_discard(void *data, u64 flags) { free((struct rbhdr *)data - 1); }
long bpf_ringbuf_output(void *ringbuf, void *data, u64 size, u64 flags)
{
	void *p = bpf_ringbuf_reserve(ringbuf, size, 0);
	if (!p) return -ENOMEM;
	memcpy(p, data, size);
	bpf_ringbuf_submit(p, 0);
	return 0;
}
long bpf_redirect(__u32 ifindex, u64 flags) { return 7; /* TC_ACT_REDIRECT */ }

/* ------------------------------------------------------------------ packet arena with guard pages */
#define PG 4096
#define DATA_PAGES 4
#define MAX_FRAME 3520
static u8 *arena[2]; /* each: [guard][DATA_PAGES][guard] */
static int cur_arena, placement;
static struct xdp_md *cur_xdp;

static void arena_init(void)
{
	for (int i = 0; i < 2; i++) {
		arena[i] = mmap(NULL, PG * (DATA_PAGES + 2), PROT_NONE, MAP_PRIVATE | MAP_ANONYMOUS, -1, 0);
		if (arena[i] == MAP_FAILED) { perror("mmap"); exit(3); }
	}
}
static int arena_open[2];
static void arena_set(int a, int open)
{
	if (arena_open[a] == open) return;
	mprotect(arena[a] + PG, PG * DATA_PAGES, open ? PROT_READ | PROT_WRITE : PROT_NONE);
	arena_open[a] = open;
}
static u8 *place(int a, int plc, const u8 *src, u32 len, u32 copy, u8 **end)
{
	u8 *lo = arena[a] + PG, *hi = arena[a] + PG * (DATA_PAGES + 1);
	arena_set(a, 1);
	u8 *d = plc == 0 ? hi - len : lo;
	/* poison a margin on the accessible side of the frame (the other side is the guard page) */
	if (plc == 0) { u8 *m = d - 256 < lo ? lo : d - 256; memset(m, 0xA5, d - m); }
	else { u8 *m = d + len + 256 > hi ? hi : d + len + 256; memset(d + len, 0xA5, m - (d + len)); }
	if (copy) memcpy(d, src, copy);
	if (len > copy) memset(d + copy, 0, len - copy);
	*end = d + len;
	/* right placement: bytes before data inside the data pages are poisoned with 0xA5 but accessible;
	 * the left placement run covers under-runs with a real guard page. */
	return d;
}
long bpf_xdp_adjust_tail(void *ctx, int delta)
{
	struct xdp_md *x = ctx;
	long len = (long)(x->data_end - x->data);
	long nl = len + delta;
	if (nl < 14) return -EINVAL;
	if (nl > MAX_FRAME) return -EINVAL;
	int other = 1 - cur_arena;
	u8 *end;
	u8 *d = place(other, placement, (u8 *)(uintptr_t)x->data, nl, nl < len ? nl : len, &end);
	arena_set(cur_arena, 0); /* stale packet pointers now fault */
	cur_arena = other;
	x->data = (u64)(uintptr_t)d; x->data_end = (u64)(uintptr_t)end;
	return 0;
}
long bpf_xdp_adjust_head(void *ctx, int delta) { return -EINVAL; }

/* ------------------------------------------------------------------ protocol */
static int rd(void *p, size_t n) { return fread(p, 1, n, stdin) == n; }
static void wr(const void *p, size_t n) { fwrite(p, 1, n, stdout); }
static u32 rd32(void) { u32 v = 0; if (!rd(&v, 4)) exit(0); return v; }
static void wr32(u32 v) { wr(&v, 4); }
static u8 *rdblob(u32 *len) { *len = rd32(); u8 *b = malloc(*len + 1); if (*len && !rd(b, *len)) exit(0); b[*len] = 0; return b; }
static void wrblob(const void *p, u32 len) { wr32(len); if (len) wr(p, len); }
static void wrstr(const char *s) { wrblob(s, strlen(s)); }

int main(void)
{
	setvbuf(stdout, NULL, _IOFBF, 1 << 16);
	verif_register_all();
	arena_init();
	for (;;) {
		int op = getchar();
		if (op == EOF) return 0;
		switch (op) {
		case 'Q':
			wr32(nmaps);
			for (int i = 0; i < nmaps; i++) { wrstr(maps[i].name); wr32(maps[i].type); wr32(maps[i].ksz); wr32(maps[i].vsz); wr32(maps[i].max); }
			break;
		case 'Y': {
			int n = 0;
			while (verif_layout[n].st) n++;
			wr32(n);
			for (int i = 0; i < n; i++) { wrstr(verif_layout[i].st); wrstr(verif_layout[i].member); wr32(verif_layout[i].off); wr32(verif_layout[i].size); }
			break; }
		case 'P':
			wr32(nprogs);
			for (int i = 0; i < nprogs; i++) { wrstr(progs[i].name); wr32(progs[i].kind); }
			break;
		case 'W': {
			u32 nl, kl, vl; u8 *n = rdblob(&nl), *k = rdblob(&kl), *v = rdblob(&vl); u32 flags = rd32();
			struct vmap *m = map_by_name((char *)n);
			long r = -ENOENT;
			if (m) r = (kl == (u32)m->ksz && vl == (u32)m->vsz) ? m_update(m, k, v, flags) : -EINVAL;
			wr32((u32)r); free(n); free(k); free(v);
			break; }
		case 'E': {
			u32 nl, kl; u8 *n = rdblob(&nl), *k = rdblob(&kl);
			struct vmap *m = map_by_name((char *)n);
			long r = (m && kl == (u32)m->ksz) ? m_delete(m, k) : -EINVAL;
			wr32((u32)r); free(n); free(k);
			break; }
		case 'G': {
			u32 nl, kl; u8 *n = rdblob(&nl), *k = rdblob(&kl);
			struct vmap *m = map_by_name((char *)n);
			void *v = (m && kl == (u32)m->ksz) ? m_lookup(m, k) : NULL;
			if (v) { wr32(1); wrblob(v, m->vsz); } else wr32(0);
			free(n); free(k);
			break; }
		case 'L': {
			u32 nl; u8 *n = rdblob(&nl);
			struct vmap *m = map_by_name((char *)n);
			if (!m || is_array(m)) { wr32(0); free(n); break; }
			wr32(m->n);
			for (int i = 0; i < m->n; i++) { wrblob(m->ents[i].key, m->ksz); wrblob(m->ents[i].val, m->vsz); }
			free(n);
			break; }
		case 'Z':
			for (int i = 0; i < nmaps; i++) m_reset(&maps[i]);
			wr32(0);
			break;
		case 'T': {
			u32 n = rd32();
			if (n > 65536) n = 65536;
			nclock = n; clock_pos = 0;
			for (u32 i = 0; i < n; i++) { u64 v; if (!rd(&v, 8)) exit(0); clock_script[i] = v; }
			wr32(0);
			break; }
		case 'X': {
			u32 nl, fl; u8 *n = rdblob(&nl);
			u32 plc = rd32(), ifindex = rd32(), mark = rd32(), prio = rd32(), proto = rd32();
			u8 *f = rdblob(&fl);
			struct vprog *p = NULL;
			for (int i = 0; i < nprogs; i++) if (!strcmp(progs[i].name, (char *)n)) p = &progs[i];
			if (!p || fl > MAX_FRAME) { wr32(1); free(n); free(f); break; }
			placement = plc; cur_arena = 0;
			arena_set(1, 0);
			u8 *end; u8 *d = place(0, plc, f, fl, fl, &end);
			nlog = 0; log_on = 1; clock_calls = 0;
			for (int i = 0; i < nevt; i++) free(evts[i].data);
			nevt = 0;
			long verdict;
			u32 oprio = prio, omark = mark;
			u8 *od, *oe;
			fflush(stdout);
			if (p->kind == 0) {
				struct xdp_md x; memset(&x, 0, sizeof(x));
				x.data = (u64)(uintptr_t)d; x.data_end = (u64)(uintptr_t)end; x.data_meta = x.data; x.ingress_ifindex = ifindex;
				cur_xdp = &x;
				verdict = p->fn(&x);
				od = (u8 *)(uintptr_t)x.data; oe = (u8 *)(uintptr_t)x.data_end;
			} else {
				struct __sk_buff s; memset(&s, 0, sizeof(s));
				s.data = (u64)(uintptr_t)d; s.data_end = (u64)(uintptr_t)end; s.len = fl; s.mark = mark; s.priority = prio;
				s.protocol = proto; s.ingress_ifindex = ifindex; s.ifindex = ifindex;
				verdict = p->fn(&s);
				od = (u8 *)(uintptr_t)s.data; oe = (u8 *)(uintptr_t)s.data_end;
				oprio = s.priority; omark = s.mark;
			}
			log_on = 0;
			wr32(0);
			int64_t v64 = verdict; wr(&v64, 8);
			wrblob(od, (u32)(oe - od));
			wr32(oprio); wr32(omark); wr32(clock_calls);
			wr32(nlog);
			for (int i = 0; i < nlog; i++) { wrstr(alog[i].map); wr32(alog[i].op); wr32(alog[i].hit); wrblob(alog[i].key, alog[i].klen); }
			wr32(nevt);
			for (int i = 0; i < nevt; i++) { wrstr(evts[i].map); wrblob(evts[i].data, evts[i].len); }
			free(n); free(f);
			break; }
		case 'S': case 'K': {
			/* S: scripted sequence: N x (clock u64, skb len u32) on one frame -> N verdict bytes.
			 * K: backlogged source: offers size[idx] at time t; admitted -> next packet at the same instant,
			 *    dropped -> retry after gap ns; until t >= end or maxn offers -> trace of (t,len,verdict). */
			u32 nl, fl; u8 *n = rdblob(&nl);
			u32 plc = rd32();
			u8 *f = rdblob(&fl);
			struct vprog *p = NULL;
			for (int i = 0; i < nprogs; i++) if (!strcmp(progs[i].name, (char *)n)) p = &progs[i];
			if (!p || p->kind != 1 || fl > MAX_FRAME) { fprintf(stderr, "HARNESS: bad sequence target\n"); return 4; }
			placement = plc; cur_arena = 0;
			arena_set(1, 0);
			u8 *end; u8 *d = place(0, plc, f, fl, fl, &end);
			log_on = 0;
			struct __sk_buff sk; 
			if (op == 'S') {
				u32 cnt = rd32();
				u8 *verd = malloc(cnt ? cnt : 1);
				for (u32 i = 0; i < cnt; i++) {
					u64 t; u32 len; if (!rd(&t, 8) || !rd(&len, 4)) exit(0);
					clock_script[0] = t; nclock = 1; clock_pos = 0;
					memset(&sk, 0, sizeof(sk));
					sk.data = (u64)(uintptr_t)d; sk.data_end = (u64)(uintptr_t)end; sk.len = len;
					verd[i] = (u8)p->fn(&sk);
				}
				wr32(cnt); wr(verd, cnt); free(verd);
			} else {
				u64 t, tend, gap; u32 maxn, nsz;
				if (!rd(&t, 8) || !rd(&tend, 8) || !rd(&gap, 8)) exit(0);
				maxn = rd32(); nsz = rd32();
				u32 *sz = malloc(4 * (nsz ? nsz : 1));
				for (u32 i = 0; i < nsz; i++) sz[i] = rd32();
				u64 *tt = malloc(8 * (maxn ? maxn : 1)); u32 *ll = malloc(4 * (maxn ? maxn : 1)); u8 *vv = malloc(maxn ? maxn : 1);
				u32 cnt = 0, idx = 0;
				while (cnt < maxn && t < tend) {
					clock_script[0] = t; nclock = 1; clock_pos = 0;
					memset(&sk, 0, sizeof(sk));
					sk.data = (u64)(uintptr_t)d; sk.data_end = (u64)(uintptr_t)end; sk.len = sz[idx % nsz];
					int v = p->fn(&sk);
					tt[cnt] = t; ll[cnt] = sz[idx % nsz]; vv[cnt] = (u8)v; cnt++;
					if (v == 0) idx++; else { if (t + gap < t) break; t += gap; }
				}
				wr32(cnt);
				for (u32 i = 0; i < cnt; i++) { wr(&tt[i], 8); wr(&ll[i], 4); wr(&vv[i], 1); }
				free(sz); free(tt); free(ll); free(vv);
			}
			free(n); free(f);
			break; }
		default:
			fprintf(stderr, "HARNESS: bad op %d\n", op);
			return 4;
		}
		fflush(stdout);
	}
}
